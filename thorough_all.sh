#!/bin/bash
# thorough_all.sh: every thorough check on the unchanged tree (must exit 0); evidence is not overwritten.
cd "$(dirname "$0")"
for i in ${*:-01 02 03 04 05 06 07 08 09 10 11 12 13 14 15 16 17 18}; do
  out=$(VERIF_NO_EVIDENCE=1 ./vcheck C$i --tier thorough 2>&1); rc=$?
  echo "C$i rc=$rc $(echo "$out" | grep '^property=' | sed 's/.*executions=\([0-9]*\).*exhaustive=\([a-z]*\) wall=\(.*\)/exec=\1 exhaustive=\2 wall=\3/')"
  echo "$out" | grep -A2 "^VIOLATION\|^HARNESS\|^INCONCLUSIVE" | cut -c1-400 | head -12
done
