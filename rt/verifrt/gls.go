package verifrt

import (
	"unsafe"
	_ "unsafe" // go:linkname
)

// The current thread is stored in the goroutine's profiler-label slot (g.labels), which
// the runtime exposes to runtime/pprof through these two push-linknamed functions. It is
// inherited by goroutines a thread starts without going through Go (they then count as
// part of that thread). Falls back to parsing the goroutine id when the self test fails.

//go:linkname runtime_getProfLabel runtime/pprof.runtime_getProfLabel
func runtime_getProfLabel() unsafe.Pointer

//go:linkname runtime_setProfLabel runtime/pprof.runtime_setProfLabel
func runtime_setProfLabel(labels unsafe.Pointer)

var glsOK = glsSelfTest()

func glsSelfTest() (ok bool) {
	defer func() {
		if recover() != nil {
			ok = false
		}
	}()
	old := runtime_getProfLabel()
	var x int
	runtime_setProfLabel(unsafe.Pointer(&x))
	ok = runtime_getProfLabel() == unsafe.Pointer(&x)
	runtime_setProfLabel(old)
	return ok
}
