// Package verifrt is the runtime half of the /verif model checker. It is injected into
// the grpctunnel module as a virtual package by `go build -overlay` (never committed to
// /repo). With no scheduler installed every entry point is a near no-op, so an
// instrumented build behaves like the original.
//
// With a scheduler installed, every goroutine started through Go is a *thread*. A
// thread parks at every synchronisation operation (Yield) and proceeds only when the
// explorer releases it, and it is only released when the operation it is about to
// perform cannot block (its guard is true). Consequently exactly one thread runs
// between two quiescent points and a step is a deterministic function of
// (state, chosen thread).
package verifrt

import (
	"bytes"
	"fmt"
	"runtime"
	"strconv"
	"strings"
	"sync"
	"sync/atomic"
	"unsafe"
)

// Thread is one controlled goroutine.
type Thread struct {
	Name string
	ID   int
	wake chan struct{}

	// valid while Parked
	Kind  string
	Site  string
	Guard func() bool
	Obj   any

	Parked bool
	Done   bool
	// Low > 0 marks low-priority pseudo threads (clock, fault events): the default
	// scheduler runs them only when no normal thread is enabled.
	Low int
	// App threads are application actors: if one has not finished when the
	// execution ends the execution hung.
	App bool
	// Daemon threads are harness helpers that are allowed to be left parked.
	Daemon bool

	Panic      any
	PanicStack string

	sched *Sched

	spawns map[string]int
	Steps  int
	// DoneStep is maintained by the explorer: the step count at which the thread was
	// first seen finished (-1 while it runs).
	DoneStep int
}

// Access is one entry of the access log (used for the anti-vacuity statistics).
type Access struct {
	Thread int
	Kind   string
	Obj    uintptr
}

// Sched is the per-execution scheduler state.
type Sched struct {
	mu      sync.Mutex
	byGoid  map[uint64]*Thread
	Threads []*Thread

	// Active reports whether a non-blocking operation of this kind at this site is a
	// scheduling point. Operations whose guard is false always park.
	Active func(kind, site string) bool
	// Decide is called for value choices made inside a thread (select with several
	// ready cases). It must return a value in [0,n).
	Decide func(site string, n int) int

	Aborting atomic.Bool

	tracked []any
	seq     map[any]int

	LogAccess bool
	Accesses  []Access

	SelectOwned   bool
	MapOrderOwned bool
	Unowned       []string
}

type abortSentinel struct{}

var cur atomic.Pointer[Sched]

// Install makes s the current scheduler (nil uninstalls).
func Install(s *Sched) { cur.Store(s) }

// Current returns the installed scheduler or nil.
func Current() *Sched { return cur.Load() }

// New returns an empty scheduler.
func New() *Sched {
	return &Sched{byGoid: map[uint64]*Thread{}, seq: map[any]int{}, SelectOwned: chanPeekOK, MapOrderOwned: true}
}

func goid() uint64 {
	var buf [64]byte
	n := runtime.Stack(buf[:], false)
	b := buf[10:n] // skip "goroutine "
	i := bytes.IndexByte(b, ' ')
	if i < 0 {
		return 0
	}
	v, _ := strconv.ParseUint(string(b[:i]), 10, 64)
	return v
}

// Me returns the calling thread, or nil when the caller is not a controlled thread.
func (s *Sched) Me() *Thread {
	if glsOK {
		t := (*Thread)(runtime_getProfLabel())
		if t == nil || t.sched != s {
			return nil
		}
		return t
	}
	g := goid()
	s.mu.Lock()
	t := s.byGoid[g]
	s.mu.Unlock()
	return t
}

// ThreadOpt customises a thread started with GoOpt.
type ThreadOpt struct {
	Low    int
	App    bool
	Daemon bool
	// Abs makes Name absolute (not prefixed by the parent's name).
	Abs bool
}

// Go starts f as a controlled thread named after its parent, the spawn site and a
// per-parent counter (so names do not depend on the interleaving). Without a
// scheduler it is a plain go statement.
func Go(site string, f func()) { GoOpt(site, ThreadOpt{}, f) }

// GoOpt is Go with options.
func GoOpt(site string, opt ThreadOpt, f func()) *Thread {
	s := cur.Load()
	if s == nil {
		go f()
		return nil
	}
	parent := s.Me()
	s.mu.Lock()
	name := site
	if parent != nil && !opt.Abs {
		k := parent.spawns[site]
		parent.spawns[site]++
		name = fmt.Sprintf("%s/%s#%d", parent.Name, site, k)
	} else if !opt.Abs {
		name = fmt.Sprintf("%s#%d", site, len(s.Threads))
	}
	t := &Thread{Name: name, ID: len(s.Threads), wake: make(chan struct{}), spawns: map[string]int{},
		Low: opt.Low, App: opt.App, Daemon: opt.Daemon, sched: s, DoneStep: -1}
	s.Threads = append(s.Threads, t)
	// The thread is born parked: the goroutine below only ever blocks on t.wake first.
	t.Kind, t.Site, t.Parked = "go", "start:"+site, true
	s.mu.Unlock()
	go func() {
		var g uint64
		if glsOK {
			runtime_setProfLabel(unsafe.Pointer(t))
		} else {
			g = goid()
			s.mu.Lock()
			s.byGoid[g] = t
			s.mu.Unlock()
		}
		defer func() {
			if r := recover(); r != nil {
				if _, ok := r.(abortSentinel); !ok {
					buf := make([]byte, 1<<14)
					n := runtime.Stack(buf, false)
					t.Panic, t.PanicStack = r, string(buf[:n])
				}
			}
			s.mu.Lock()
			t.Done = true
			t.Parked = false
			delete(s.byGoid, g)
			s.mu.Unlock()
		}()
		<-t.wake
		if s.Aborting.Load() {
			panic(abortSentinel{})
		}
		f()
	}()
	return t
}

// Yield is a scheduling point before a synchronisation operation of the given kind.
// guard == nil means the operation never blocks. Inactive non-blocking operations pass
// straight through.
func Yield(kind, site string, obj any, guard func() bool) {
	s := cur.Load()
	if s == nil {
		return
	}
	if s.Aborting.Load() {
		return
	}
	t := s.Me()
	if t == nil {
		return
	}
	if s.LogAccess && obj != nil {
		s.mu.Lock()
		s.Accesses = append(s.Accesses, Access{t.ID, kind, objAddr(obj)})
		s.mu.Unlock()
	}
	if (guard == nil || guard()) && (s.Active == nil || !s.Active(kind, site)) {
		return
	}
	s.mu.Lock()
	t.Kind, t.Site, t.Guard, t.Obj = kind, site, guard, obj
	t.Parked = true
	s.mu.Unlock()
	<-t.wake
	if s.Aborting.Load() {
		panic(abortSentinel{})
	}
}

// IsAborting reports whether the current scheduler is unwinding its threads (the shims
// then tolerate unlocks of mutexes the unwinding code does not hold).
func IsAborting() bool {
	s := cur.Load()
	return s != nil && s.Aborting.Load()
}

// Release lets a parked thread run. The caller must then wait for quiescence.
func (s *Sched) Release(t *Thread) {
	s.mu.Lock()
	t.Parked = false
	t.Guard = nil
	t.Steps++
	s.mu.Unlock()
	t.wake <- struct{}{}
}

// Snapshot classifies the threads. It must only be called at a quiescent point.
func (s *Sched) Snapshot() (enabled, waiting, blocked []*Thread) {
	s.mu.Lock()
	ts := append([]*Thread(nil), s.Threads...)
	s.mu.Unlock()
	for _, t := range ts {
		switch {
		case t.Done:
		case t.Parked:
			if t.Guard == nil || t.Guard() {
				enabled = append(enabled, t)
			} else {
				waiting = append(waiting, t)
			}
		default:
			blocked = append(blocked, t)
		}
	}
	return
}

// AbortAll unwinds every parked thread (used after an execution has been judged).
func (s *Sched) AbortAll() {
	s.Aborting.Store(true)
	s.mu.Lock()
	ts := append([]*Thread(nil), s.Threads...)
	s.mu.Unlock()
	for _, t := range ts {
		if t.Parked && !t.Done {
			t.Parked = false
			t.wake <- struct{}{}
		}
	}
}

// Track records an object allocated by the code under test so that the harness can
// inspect it (by reflection) at quiescent points, and gives it a creation sequence
// number used to order map iteration canonically.
func Track[T any](p T) T {
	s := cur.Load()
	if s == nil {
		return p
	}
	s.mu.Lock()
	s.tracked = append(s.tracked, p)
	func() {
		defer func() { _ = recover() }() // unhashable: not used as a map key anyway
		s.seq[any(p)] = len(s.tracked)
	}()
	s.mu.Unlock()
	return p
}

// Tracked returns the objects recorded by Track, in creation order.
func (s *Sched) Tracked() []any {
	s.mu.Lock()
	defer s.mu.Unlock()
	return append([]any(nil), s.tracked...)
}

func (s *Sched) seqOf(k any) (n int, ok bool) {
	defer func() {
		if recover() != nil {
			ok = false
		}
	}()
	s.mu.Lock()
	defer s.mu.Unlock()
	n, ok = s.seq[k]
	return
}

func (s *Sched) noteUnowned(what string) {
	s.mu.Lock()
	s.Unowned = append(s.Unowned, what)
	s.mu.Unlock()
}

var siteCache sync.Map // pc -> string

// CallerSite returns "file:line:func" of the caller skip frames above its caller.
func CallerSite(skip int) string {
	var pcs [1]uintptr
	if runtime.Callers(skip+2, pcs[:]) == 0 {
		return "?"
	}
	if v, ok := siteCache.Load(pcs[0]); ok {
		return v.(string)
	}
	fr, _ := runtime.CallersFrames(pcs[:]).Next()
	file := fr.File
	if i := strings.LastIndexByte(file, '/'); i >= 0 {
		file = file[i+1:]
	}
	fn := fr.Function
	if i := strings.LastIndexByte(fn, '/'); i >= 0 {
		fn = fn[i+1:]
	}
	if i := strings.IndexByte(fn, '.'); i >= 0 {
		fn = fn[i+1:]
	}
	v := fmt.Sprintf("%s:%d:%s", file, fr.Line, fn)
	siteCache.Store(pcs[0], v)
	return v
}
