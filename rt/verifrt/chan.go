package verifrt

import (
	"cmp"
	"fmt"
	"iter"
	"reflect"
	"slices"
	"unsafe"
)

// ChanCase describes one channel operation for readiness tests.
type ChanCase struct {
	p    unsafe.Pointer // *hchan, nil for a nil channel
	send bool
	dflt bool
}

type eface struct{ t, p unsafe.Pointer }

func chanPtr(ch any) unsafe.Pointer {
	if ch == nil {
		return nil
	}
	return (*eface)(unsafe.Pointer(&ch)).p
}

// R describes a receive from ch, S a send to ch, D a default clause.
func R(ch any) ChanCase { return ChanCase{p: chanPtr(ch)} }
func S(ch any) ChanCase { return ChanCase{p: chanPtr(ch), send: true} }
func D() ChanCase       { return ChanCase{dflt: true} }

// hchan layout of go1.26 on 64-bit: qcount@0 dataqsiz@8 buf@16 elemsize@24 closed@28
// timer@32 elemtype@40 sendx@48 recvx@56 recvq.first@64 recvq.last@72 sendq.first@80.
// Verified by a self test at start-up; if it fails select ownership is switched off and
// channel operations fall back to real blocking (still correct, less controlled).
func peek(p unsafe.Pointer) (qcount, dataqsiz uint, closed bool, recvq, sendq bool) {
	qcount = *(*uint)(p)
	dataqsiz = *(*uint)(unsafe.Add(p, 8))
	closed = *(*uint32)(unsafe.Add(p, 28)) != 0
	recvq = *(*uintptr)(unsafe.Add(p, 64)) != 0
	sendq = *(*uintptr)(unsafe.Add(p, 80)) != 0
	return
}

var chanPeekOK = selfTestPeek()

func selfTestPeek() (ok bool) {
	defer func() {
		if recover() != nil {
			ok = false
		}
	}()
	if unsafe.Sizeof(uintptr(0)) != 8 {
		return false
	}
	c := make(chan int, 2)
	q, d, cl, _, _ := peek(chanPtr(c))
	if q != 0 || d != 2 || cl {
		return false
	}
	c <- 1
	q, d, cl, _, _ = peek(chanPtr(c))
	if q != 1 || d != 2 || cl {
		return false
	}
	close(c)
	q, _, cl, _, _ = peek(chanPtr(c))
	if q != 1 || !cl {
		return false
	}
	u := make(chan struct{})
	q, d, cl, r, s := peek(chanPtr(u))
	if q != 0 || d != 0 || cl || r || s {
		return false
	}
	return true
}

// Ready reports whether the operation can complete without blocking right now.
func (c ChanCase) Ready() bool {
	if c.dflt {
		return true
	}
	if c.p == nil {
		return false
	}
	q, d, closed, recvq, sendq := peek(c.p)
	if closed {
		return true
	}
	if c.send {
		return q < d || recvq
	}
	return q > 0 || sendq
}

// YieldChan is the scheduling point before a statement that performs the given channel
// operations (all of them must be able to complete; in practice there is one).
func YieldChan(site string, cases ...ChanCase) {
	s := cur.Load()
	if s == nil {
		return
	}
	if !chanPeekOK || len(cases) == 0 {
		Yield("chan", site, nil, nil)
		return
	}
	var obj any
	if cases[0].p != nil {
		obj = cases[0].p
	}
	Yield("chan", site, obj, func() bool {
		for _, c := range cases {
			if !c.Ready() {
				return false
			}
		}
		return true
	})
}

// Select is the scheduling point before a select statement. It returns the index of
// the case the select must take (the other cases are masked by MaskR/MaskS), or -1 to
// leave the select alone.
func Select(site string, cases ...ChanCase) int {
	s := cur.Load()
	if s == nil || !chanPeekOK || s.Aborting.Load() {
		return -1
	}
	t := s.Me()
	if t == nil {
		return -1
	}
	var obj any
	for _, c := range cases {
		if c.p != nil {
			obj = c.p
			break
		}
	}
	Yield("chan", site, obj, func() bool {
		for _, c := range cases {
			if c.Ready() {
				return true
			}
		}
		return false
	})
	var ready []int
	dflt := -1
	for i, c := range cases {
		if c.dflt {
			dflt = i
			continue
		}
		if c.Ready() {
			ready = append(ready, i)
		}
	}
	switch {
	case len(ready) == 0:
		return dflt // -1 when there is no default (cannot happen: the guard held)
	case len(ready) == 1:
		return ready[0]
	}
	k := 0
	if s.Decide != nil {
		k = s.Decide("select:"+site, len(ready))
		if k < 0 || k >= len(ready) {
			panic(fmt.Sprintf("verifrt: Decide returned %d of %d", k, len(ready)))
		}
	}
	return ready[k]
}

// MaskR returns ch when case i is allowed, else a nil channel (never ready).
func MaskR[T any](m, i int, ch <-chan T) <-chan T {
	if m >= 0 && m != i {
		return nil
	}
	return ch
}

// MaskS is MaskR for send cases.
func MaskS[T any](m, i int, ch chan<- T) chan<- T {
	if m >= 0 && m != i {
		return nil
	}
	return ch
}

// MapSeq iterates m in a canonical order (so that the iteration order is owned by the
// harness rather than by the runtime's per-iteration random seed): ordered key kinds by
// value, reference kinds by the creation sequence number Track gave them. Keys deleted
// during the iteration are skipped, as with a native range; keys added during it are
// not visited (a native range may or may not visit them).
func MapSeq[M ~map[K]V, K comparable, V any](site string, m M) iter.Seq2[K, V] {
	return func(yield func(K, V) bool) {
		s := cur.Load()
		if s == nil {
			for k, v := range m {
				if !yield(k, v) {
					return
				}
			}
			return
		}
		keys := make([]K, 0, len(m))
		for k := range m {
			keys = append(keys, k)
		}
		if !sortKeys(s, keys) && len(keys) > 1 {
			s.mu.Lock()
			s.MapOrderOwned = false
			s.mu.Unlock()
			s.noteUnowned("maporder:" + site)
		}
		for _, k := range keys {
			v, ok := m[k]
			if !ok {
				continue
			}
			if !yield(k, v) {
				return
			}
		}
	}
}

func sortKeys[K comparable](s *Sched, keys []K) bool {
	if len(keys) < 2 {
		return true
	}
	rv := reflect.ValueOf(keys[0])
	switch rv.Kind() {
	case reflect.Int, reflect.Int8, reflect.Int16, reflect.Int32, reflect.Int64:
		slices.SortFunc(keys, func(a, b K) int { return cmp.Compare(reflect.ValueOf(a).Int(), reflect.ValueOf(b).Int()) })
		return true
	case reflect.Uint, reflect.Uint8, reflect.Uint16, reflect.Uint32, reflect.Uint64, reflect.Uintptr:
		slices.SortFunc(keys, func(a, b K) int { return cmp.Compare(reflect.ValueOf(a).Uint(), reflect.ValueOf(b).Uint()) })
		return true
	case reflect.String:
		slices.SortFunc(keys, func(a, b K) int { return cmp.Compare(reflect.ValueOf(a).String(), reflect.ValueOf(b).String()) })
		return true
	}
	// reference kinds: creation order
	type ks struct {
		k K
		n int
	}
	tmp := make([]ks, len(keys))
	for i, k := range keys {
		n, ok := s.seqOf(any(k))
		if !ok {
			return false
		}
		tmp[i] = ks{k, n}
	}
	slices.SortFunc(tmp, func(a, b ks) int { return cmp.Compare(a.n, b.n) })
	for i := range tmp {
		keys[i] = tmp[i].k
	}
	return true
}

func objAddr(obj any) uintptr {
	if obj == nil {
		return 0
	}
	rv := reflect.ValueOf(obj)
	switch rv.Kind() {
	case reflect.Pointer, reflect.UnsafePointer, reflect.Chan, reflect.Map, reflect.Func, reflect.Slice:
		return rv.Pointer()
	}
	return 0
}
