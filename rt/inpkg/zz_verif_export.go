package grpctunnel

// This file is NOT part of /repo: it is added to the package by `go build -overlay`
// when /verif builds its harness. It exports the flow-control core so that it can be
// driven in isolation (property C05) and nothing else.

import (
	"context"

	"github.com/jhump/grpctunnel/tunnelpb"
)

// VerifSender is the flow-control sender of one stream direction.
type VerifSender interface {
	Send(data []byte) error
	UpdateWindow(add uint32)
}

type verifSender struct{ s sender }

func (v verifSender) Send(b []byte) error     { return v.s.send(b) }
func (v verifSender) UpdateWindow(add uint32) { v.s.updateWindow(add) }

// VerifNewSender builds the flow-controlled sender used for revision one.
func VerifNewSender(ctx context.Context, window uint32, sendFunc func([]byte, uint32, bool) error) VerifSender {
	return verifSender{newSender(ctx, window, sendFunc)}
}

// VerifNewSenderNoFC builds the revision-zero sender.
func VerifNewSenderNoFC(sendFunc func([]byte, uint32, bool) error) VerifSender {
	return verifSender{newSenderWithoutFlowControl(sendFunc)}
}

// VerifReceiver is the flow-control receiver of one stream direction, over byte slices.
type VerifReceiver interface {
	Accept(item []byte) error
	Close()
	Cancel()
	Dequeue() ([]byte, bool)
}

type verifReceiver struct{ r receiver[[]byte] }

func (v verifReceiver) Accept(b []byte) error   { return v.r.accept(b) }
func (v verifReceiver) Close()                  { v.r.close() }
func (v verifReceiver) Cancel()                 { v.r.cancel() }
func (v verifReceiver) Dequeue() ([]byte, bool) { return v.r.dequeue() }

// VerifNewReceiver builds the flow-controlled receiver used for revision one.
func VerifNewReceiver(window uint32, update func(uint32)) VerifReceiver {
	return verifReceiver{newReceiver(func(b []byte) uint { return uint(len(b)) }, update, window)}
}

// VerifNewReceiverNoFC builds the revision-zero receiver.
func VerifNewReceiverNoFC(ctx context.Context) VerifReceiver {
	return verifReceiver{newReceiverWithoutFlowControl[[]byte](ctx)}
}

// VerifConstants reports the protocol constants the harness oracles are parameterised by.
func VerifConstants() (window, chunk uint32) { return initialWindowSize, chunkMax }

var _ = tunnelpb.ProtocolRevision_REVISION_ZERO
