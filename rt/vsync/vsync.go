// Package vsync replaces "sync" in instrumented builds of grpctunnel. Every type wraps
// the real primitive (so an inert build behaves exactly like the original) and adds a
// scheduling point with an enabledness guard before each operation, so that under the
// /verif scheduler no thread is ever released into an operation that would block.
package vsync

import (
	"sync"
	"sync/atomic"

	"github.com/jhump/grpctunnel/verifrt"
)

type Locker = sync.Locker
type Pool = sync.Pool
type Map = sync.Map

// Mutex shadows sync.Mutex.
type Mutex struct {
	mu   sync.Mutex
	held atomic.Bool
}

func (m *Mutex) Lock() {
	verifrt.Yield("lock", verifrt.CallerSite(1), m, func() bool { return !m.held.Load() })
	m.mu.Lock()
	m.held.Store(true)
}

func (m *Mutex) TryLock() bool {
	verifrt.Yield("lock", verifrt.CallerSite(1), m, nil)
	if m.mu.TryLock() {
		m.held.Store(true)
		return true
	}
	return false
}

func (m *Mutex) Unlock() {
	verifrt.Yield("unlock", verifrt.CallerSite(1), m, nil)
	if !m.held.Load() {
		if verifrt.IsAborting() {
			return // deferred unlock run while a parked thread is being unwound
		}
		// the real primitive would kill the process ("fatal error: sync: unlock of unlocked
		// mutex"); a panic of this thread is recorded as a crash and keeps the worker alive
		panic("fatal error: sync: unlock of unlocked mutex (" + verifrt.CallerSite(1) + ")")
	}
	m.held.Store(false)
	m.mu.Unlock()
}

// RWMutex shadows sync.RWMutex.
type RWMutex struct {
	mu      sync.RWMutex
	writer  atomic.Bool
	readers atomic.Int32
}

func (m *RWMutex) Lock() {
	verifrt.Yield("lock", verifrt.CallerSite(1), m, func() bool { return !m.writer.Load() && m.readers.Load() == 0 })
	m.mu.Lock()
	m.writer.Store(true)
}

func (m *RWMutex) Unlock() {
	verifrt.Yield("unlock", verifrt.CallerSite(1), m, nil)
	if !m.writer.Load() {
		if verifrt.IsAborting() {
			return
		}
		panic("fatal error: sync: Unlock of unlocked RWMutex (" + verifrt.CallerSite(1) + ")")
	}
	m.writer.Store(false)
	m.mu.Unlock()
}

func (m *RWMutex) RLock() {
	verifrt.Yield("rlock", verifrt.CallerSite(1), m, func() bool { return !m.writer.Load() })
	m.mu.RLock()
	m.readers.Add(1)
}

func (m *RWMutex) RUnlock() {
	verifrt.Yield("runlock", verifrt.CallerSite(1), m, nil)
	if m.readers.Load() <= 0 {
		if verifrt.IsAborting() {
			return
		}
		panic("fatal error: sync: RUnlock of unlocked RWMutex (" + verifrt.CallerSite(1) + ")")
	}
	m.readers.Add(-1)
	m.mu.RUnlock()
}

func (m *RWMutex) RLocker() Locker { return (*rlocker)(m) }

type rlocker RWMutex

func (r *rlocker) Lock()   { (*RWMutex)(r).RLock() }
func (r *rlocker) Unlock() { (*RWMutex)(r).RUnlock() }

// Cond shadows sync.Cond (usable as a zero value with L set, like the original).
type Cond struct {
	L  Locker
	mu sync.Mutex
	ws []*waiter
}

type waiter struct {
	ch   chan struct{}
	done atomic.Bool
}

func NewCond(l Locker) *Cond { return &Cond{L: l} }

func (c *Cond) Wait() {
	site := verifrt.CallerSite(1)
	w := &waiter{ch: make(chan struct{})}
	c.mu.Lock()
	c.ws = append(c.ws, w)
	c.mu.Unlock()
	c.L.Unlock()
	verifrt.Yield("condwait", site, c, func() bool { return w.done.Load() })
	<-w.ch
	c.L.Lock()
}

func (c *Cond) Signal() {
	verifrt.Yield("signal", verifrt.CallerSite(1), c, nil)
	c.mu.Lock()
	if len(c.ws) > 0 {
		w := c.ws[0]
		c.ws = c.ws[1:]
		w.done.Store(true)
		close(w.ch)
	}
	c.mu.Unlock()
}

func (c *Cond) Broadcast() {
	verifrt.Yield("signal", verifrt.CallerSite(1), c, nil)
	c.mu.Lock()
	for _, w := range c.ws {
		w.done.Store(true)
		close(w.ch)
	}
	c.ws = nil
	c.mu.Unlock()
}

// Once shadows sync.Once.
type Once struct {
	once    sync.Once
	running atomic.Bool
}

func (o *Once) Do(f func()) {
	verifrt.Yield("once", verifrt.CallerSite(1), o, func() bool { return !o.running.Load() })
	o.once.Do(func() {
		o.running.Store(true)
		defer o.running.Store(false)
		f()
	})
}

func OnceFunc(f func()) func() {
	var o Once
	return func() { o.Do(f) }
}

func OnceValue[T any](f func() T) func() T {
	var o Once
	var v T
	return func() T { o.Do(func() { v = f() }); return v }
}

func OnceValues[T1, T2 any](f func() (T1, T2)) func() (T1, T2) {
	var o Once
	var v1 T1
	var v2 T2
	return func() (T1, T2) { o.Do(func() { v1, v2 = f() }); return v1, v2 }
}

// WaitGroup shadows sync.WaitGroup.
type WaitGroup struct {
	wg sync.WaitGroup
	n  atomic.Int64
}

func (w *WaitGroup) Add(d int) {
	verifrt.Yield("wg", verifrt.CallerSite(1), w, nil)
	w.n.Add(int64(d))
	w.wg.Add(d)
}

func (w *WaitGroup) Done() {
	verifrt.Yield("wg", verifrt.CallerSite(1), w, nil)
	w.n.Add(-1)
	w.wg.Done()
}

func (w *WaitGroup) Wait() {
	verifrt.Yield("wgwait", verifrt.CallerSite(1), w, func() bool { return w.n.Load() <= 0 })
	w.wg.Wait()
}

func (w *WaitGroup) Go(f func()) {
	w.Add(1)
	verifrt.Go("wg.Go", func() {
		defer w.Done()
		f()
	})
}
