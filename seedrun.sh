#!/bin/bash
# seedrun.sh <Cnn> <A|B> [check ids...]
# 1. confirms a sub-agent's breaking change in its scratch worktree /tmp/wt-<Cnn>: with the patch the
#    repository's suite passes and the demonstration fails; without it the demonstration passes;
# 2. copies it to /verif/seeded/<Cnn>-<X>/;
# 3. runs the given checks (default: the property's own check, quick then thorough if missed) against a
#    scratch copy of /repo with the patch applied and records DETECTED / MISSED in result.txt.
set -u
ID=$1; X=$2; shift 2
V=$(cd "$(dirname "$0")" && pwd)
SRC=/tmp/seeded-out/$ID/$X; WT=/tmp/wt-$ID
DST=$V/seeded/$ID-$X
export PATH=/root/go/pkg/mod/golang.org/toolchain@v0.0.1-go1.24.0.linux-amd64/bin:$PATH
GOENV="GOTOOLCHAIN=local GOFLAGS=-mod=mod GOPROXY=off GOSUMDB=off"
[ -f "$SRC/patch.diff" ] || { echo "no patch in $SRC"; exit 2; }
mkdir -p "$DST"; cp "$SRC/patch.diff" "$SRC/meta.json" "$DST/" 2>/dev/null; cp "$SRC/demo_test.go" "$DST/demo_test.go.txt"
R="$DST/result.txt"; if [ -z "${SEED_SKIP_CONFIRM:-}" ]; then : > "$R"; else grep -v "^DETECTED\|^MISSED\|^VIOLATION" "$R" > "$R.tmp" 2>/dev/null; mv "$R.tmp" "$R"; fi
if [ -z "${SEED_SKIP_CONFIRM:-}" ]; then
  git -C "$WT" checkout -q -- . ; rm -f "$WT"/seeded_demo_*_test.go
  cp "$SRC/demo_test.go" "$WT/seeded_demo_${X}_test.go"
  (cd "$WT" && env $GOENV go test -vet=off -count=1 -timeout 5m -run "TestSeededDemo$X" . >/tmp/seed.$$.log 2>&1); A=$?
  echo "without change: demo rc=$A (expect 0)" | tee -a "$R"
  git -C "$WT" apply "$SRC/patch.diff" || { echo "patch does not apply" | tee -a "$R"; exit 2; }
  (cd "$WT" && env $GOENV go test -vet=off -count=1 -timeout 5m -run "TestSeededDemo$X" . >/tmp/seed.$$.log 2>&1); B=$?
  echo "with change: demo rc=$B (expect non-zero)" | tee -a "$R"
  mv "$WT/seeded_demo_${X}_test.go" /tmp/seed.$$.demo
  (cd "$WT" && env $GOENV go test -vet=off -count=1 -timeout 20m . >/tmp/seed.$$.log 2>&1); C=$?
  echo "with change: existing suite rc=$C (expect 0)" | tee -a "$R"
  git -C "$WT" checkout -q -- . ; rm -f /tmp/seed.$$.demo /tmp/seed.$$.log
  if [ $A -ne 0 ] || [ $B -eq 0 ] || [ $C -ne 0 ]; then echo "NOT-CONFIRMED" | tee -a "$R"; exit 3; fi
  echo "CONFIRMED" | tee -a "$R"
fi
CHECKS=${*:-$ID}
for c in $CHECKS; do
  out=$("$V/selftest.sh" "$SRC/patch.diff" "$c" quick 2>&1 | tail -4)
  echo "$out" | tail -1 | tee -a "$R"
  if echo "$out" | grep -q "^MISSED" && [ -z "${SEED_NO_THOROUGH:-}" ]; then
    out=$("$V/selftest.sh" "$SRC/patch.diff" "$c" thorough 2>&1 | tail -4)
    echo "$out" | tail -1 | tee -a "$R"
  fi
  echo "$out" | grep "^VIOLATION" | head -3 >> "$R"
done
