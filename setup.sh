#!/bin/bash
# Builds the framework from files on disk only, warms the Go build cache and checks the two
# assumptions the checks rest on: (1) the overlay instrumentation preserves behaviour (the
# repository's own suite passes against the instrumented build with no scheduler installed),
# (2) the harness builds against the current tree.
set -e
cd "$(dirname "$0")"
export GOFLAGS=-mod=mod GOPROXY=off GOSUMDB=off GOTOOLCHAIN=local
mkdir -p bin .build evidence replays
go1.26.8 build -o bin/instrument ./cmd/instrument
./vcheck build
if [ -z "${VERIF_SKIP_INERT:-}" ]; then
  OV=$(mktemp -d .build/inert.XXXXXX)
  ./bin/instrument -repo /repo -rt "$PWD/rt" -out "$PWD/$OV" >/dev/null
  if (cd /repo && go1.26.8 test -overlay "$OLDPWD/$OV/overlay.json" -vet=off -count=1 . >"$OLDPWD/$OV/inert.log" 2>&1); then
    echo "instrumented-but-inert suite: ok"
  else
    echo "WARNING: the repository's suite does not pass against the instrumented (inert) build:" >&2
    tail -20 "$OV/inert.log" >&2
  fi
  rm -rf "$OV"
fi
# the in-memory carrier must behave like grpc-go (compared over bufconn, 16 scripted programs)
if [ -z "${VERIF_SKIP_CONFORMANCE:-}" ]; then
  OV=$(mktemp -d .build/conf.XXXXXX)
  ./bin/instrument -repo /repo -rt "$PWD/rt" -out "$PWD/$OV" >/dev/null
  (cd harness && go1.26.8 test -c -vet=off -overlay "$OLDPWD/$OV/overlay.json" -o "$OLDPWD/$OV/h.test" .) >/dev/null 2>&1
  if VERIF_MODE=worker VERIF_CONFORMANCE=1 "$OV/h.test" -test.run '^TestCarrierConformance$' >"$OV/conf.log" 2>&1; then
    echo "carrier conformance (memconn vs grpc-go over bufconn): ok ($(grep -c '^ok ' "$OV/conf.log") programs)"
  else
    echo "WARNING: memconn differs from grpc-go:" >&2
    grep -A2 MISMATCH "$OV/conf.log" >&2
  fi
  rm -rf "$OV"
fi
# warm the build cache for the race pass of C15 (race-instrumented grpc-go and standard library)
if [ -z "${VERIF_SKIP_RACE:-}" ]; then
  (cd racepass && go1.26.8 test -c -race -vet=off -o /dev/null .) >/dev/null 2>&1 && echo "race pass builds: ok" || echo "WARNING: the race pass of C15 does not build" >&2
fi
echo "setup ok"
