#!/bin/bash
# Builds the framework from files on disk only and warms the Go build cache.
set -e
cd "$(dirname "$0")"
export GOFLAGS=-mod=mod GOPROXY=off GOSUMDB=off GOTOOLCHAIN=local
mkdir -p bin .build evidence replays
go1.26.8 build -o bin/instrument ./cmd/instrument
./vcheck build
echo "setup ok"
