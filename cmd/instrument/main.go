// instrument rewrites the non-test Go files of the grpctunnel root package for the /verif
// model checker and writes a `go build -overlay` description. /repo is never written.
//
// usage: instrument -repo /repo -rt /verif/rt -out DIR [-shim=true] [-extra file.go ...]
//
// All rewrites are byte-offset text splices placed on the line of the statement they
// belong to, so line numbers in stack traces and site names are /repo's line numbers.
package main

import (
	"crypto/sha256"
	"encoding/hex"
	"encoding/json"
	"flag"
	"fmt"
	"go/ast"
	"go/parser"
	"go/token"
	"os"
	"path/filepath"
	"sort"
	"strconv"
	"strings"
)

const modPath = "github.com/jhump/grpctunnel"

type edit struct {
	off, del int
	ins      string
	prio     int // among edits at the same offset: lower prio is placed first
}

type report struct {
	Files          []string `json:"files"`
	GoSites        []string `json:"go_sites"`
	ChanSites      []string `json:"chan_sites"`
	SelectSites    []string `json:"select_sites"`
	MapRangeSites  []string `json:"map_range_sites"`
	TrackSites     int      `json:"track_sites"`
	Uninstrumented []string `json:"uninstrumented_sites"`
	RangeUnknown   []string `json:"range_unknown"`
	InputHash      string   `json:"input_hash"`
	Shim           bool     `json:"shim"`
}

func main() {
	repo := flag.String("repo", "/repo", "repository root")
	rt := flag.String("rt", "/verif/rt", "runtime sources (verifrt, vsync, vatomic, inpkg)")
	out := flag.String("out", "", "output directory")
	shim := flag.Bool("shim", true, "replace sync and sync/atomic by the scheduler-aware shims")
	flag.Parse()
	if *out == "" {
		fatal("need -out")
	}
	must(os.MkdirAll(*out, 0o755))

	ents, err := os.ReadDir(*repo)
	must(err)
	fset := token.NewFileSet()
	type pf struct {
		name string
		src  []byte
		f    *ast.File
	}
	var files []pf
	h := sha256.New()
	for _, e := range ents {
		n := e.Name()
		if e.IsDir() || !strings.HasSuffix(n, ".go") || strings.HasSuffix(n, "_test.go") {
			continue
		}
		src, err := os.ReadFile(filepath.Join(*repo, n))
		must(err)
		f, err := parser.ParseFile(fset, filepath.Join(*repo, n), src, parser.ParseComments|parser.SkipObjectResolution)
		if err != nil {
			fatal("parse %s: %v", n, err)
		}
		if f.Name.Name != "grpctunnel" {
			continue
		}
		h.Write([]byte(n))
		h.Write(src)
		files = append(files, pf{n, src, f})
	}
	rep := &report{InputHash: hex.EncodeToString(h.Sum(nil)), Shim: *shim}

	// package-level knowledge gathered syntactically
	structs := map[string]bool{}
	fieldIsMap := map[string]int{} // field name -> +1 map, -1000 non-map
	for _, p := range files {
		for _, d := range p.f.Decls {
			gd, ok := d.(*ast.GenDecl)
			if !ok || gd.Tok != token.TYPE {
				continue
			}
			for _, sp := range gd.Specs {
				ts := sp.(*ast.TypeSpec)
				st, ok := ts.Type.(*ast.StructType)
				if !ok {
					continue
				}
				structs[ts.Name.Name] = true
				for _, fl := range st.Fields.List {
					_, isMap := fl.Type.(*ast.MapType)
					for _, nm := range fl.Names {
						if isMap {
							fieldIsMap[nm.Name]++
						} else {
							fieldIsMap[nm.Name] -= 1000
						}
					}
				}
			}
		}
	}

	overlay := map[string]string{}
	for _, p := range files {
		r := &rewriter{fset: fset, src: p.src, name: p.name, rep: rep, structs: structs, fieldIsMap: fieldIsMap, shim: *shim}
		r.file(p.f)
		dst := filepath.Join(*out, p.name)
		must(os.WriteFile(dst, r.apply(), 0o644))
		overlay[filepath.Join(*repo, p.name)] = dst
		rep.Files = append(rep.Files, p.name)
	}
	// virtual packages
	for _, sub := range []string{"verifrt", "vsync", "vatomic"} {
		ms, _ := filepath.Glob(filepath.Join(*rt, sub, "*.go"))
		for _, m := range ms {
			if strings.HasSuffix(m, "_test.go") {
				continue
			}
			sd := sub
			if sub != "verifrt" {
				sd = "verifrt/" + sub
			}
			overlay[filepath.Join(*repo, sd, filepath.Base(m))] = m
		}
	}
	// in-package additions
	ms, _ := filepath.Glob(filepath.Join(*rt, "inpkg", "*.go"))
	for _, m := range ms {
		overlay[filepath.Join(*repo, filepath.Base(m))] = m
	}
	for _, x := range flag.Args() {
		overlay[filepath.Join(*repo, filepath.Base(x))] = x
	}
	b, _ := json.MarshalIndent(map[string]any{"Replace": overlay}, "", " ")
	must(os.WriteFile(filepath.Join(*out, "overlay.json"), b, 0o644))
	sort.Strings(rep.Uninstrumented)
	b, _ = json.MarshalIndent(rep, "", " ")
	must(os.WriteFile(filepath.Join(*out, "instrument.json"), b, 0o644))
}

func must(err error) {
	if err != nil {
		fatal("%v", err)
	}
}

func fatal(f string, a ...any) {
	fmt.Fprintf(os.Stderr, "instrument: "+f+"\n", a...)
	os.Exit(2)
}

type rewriter struct {
	fset       *token.FileSet
	src        []byte
	name       string
	rep        *report
	structs    map[string]bool
	fieldIsMap map[string]int
	shim       bool
	edits      []edit
	fn         string
}

func (r *rewriter) off(p token.Pos) int { return r.fset.Position(p).Offset }
func (r *rewriter) line(p token.Pos) int { return r.fset.Position(p).Line }
func (r *rewriter) text(n ast.Node) string {
	return string(r.src[r.off(n.Pos()):r.off(n.End())])
}
func (r *rewriter) site(p token.Pos) string {
	return fmt.Sprintf("%s:%d:%s", r.name, r.line(p), r.fn)
}
func (r *rewriter) ins(p token.Pos, s string, prio int) {
	r.edits = append(r.edits, edit{off: r.off(p), ins: s, prio: prio})
}
func (r *rewriter) repl(from, to token.Pos, s string) {
	r.edits = append(r.edits, edit{off: r.off(from), del: r.off(to) - r.off(from), ins: s})
}

func (r *rewriter) apply() []byte {
	sort.SliceStable(r.edits, func(i, j int) bool {
		if r.edits[i].off != r.edits[j].off {
			return r.edits[i].off < r.edits[j].off
		}
		return r.edits[i].prio < r.edits[j].prio
	})
	var out []byte
	pos := 0
	for _, e := range r.edits {
		if e.off < pos {
			fatal("%s: overlapping edits at offset %d", r.name, e.off)
		}
		out = append(out, r.src[pos:e.off]...)
		out = append(out, e.ins...)
		pos = e.off + e.del
	}
	out = append(out, r.src[pos:]...)
	return out
}

func (r *rewriter) file(f *ast.File) {
	// import of the runtime, on the package line
	r.ins(f.Name.End(), `; import verifrt "`+modPath+`/verifrt"`, 0)
	r.edits = append(r.edits, edit{off: len(r.src), ins: "\nvar _ = verifrt.Current\n"})
	if r.shim {
		for _, imp := range f.Imports {
			p, _ := strconv.Unquote(imp.Path.Value)
			var np, nm string
			switch p {
			case "sync":
				np, nm = modPath+"/verifrt/vsync", "sync"
			case "sync/atomic":
				np, nm = modPath+"/verifrt/vatomic", "atomic"
			default:
				continue
			}
			if imp.Name != nil {
				r.repl(imp.Path.Pos(), imp.Path.End(), strconv.Quote(np))
			} else {
				r.repl(imp.Path.Pos(), imp.Path.End(), nm+" "+strconv.Quote(np))
			}
		}
	}
	for _, d := range f.Decls {
		switch d := d.(type) {
		case *ast.FuncDecl:
			r.fn = d.Name.Name
			if d.Body != nil {
				r.block(d.Body.List)
				r.exprs(d.Body)
			}
		case *ast.GenDecl:
			r.fn = "init"
			r.exprs(d)
		}
	}
}

// exprs handles expression-level rewrites (Track of composite literals, func literal
// bodies) anywhere below n.
func (r *rewriter) exprs(n ast.Node) {
	ast.Inspect(n, func(n ast.Node) bool {
		switch n := n.(type) {
		case *ast.UnaryExpr:
			if n.Op != token.AND {
				return true
			}
			cl, ok := n.X.(*ast.CompositeLit)
			if !ok {
				return true
			}
			var id *ast.Ident
			switch t := cl.Type.(type) {
			case *ast.Ident:
				id = t
			case *ast.IndexExpr:
				id, _ = t.X.(*ast.Ident)
			case *ast.IndexListExpr:
				id, _ = t.X.(*ast.Ident)
			}
			if id != nil && r.structs[id.Name] {
				r.ins(n.Pos(), "verifrt.Track(", 5)
				r.ins(n.End(), ")", -5)
				r.rep.TrackSites++
			}
		}
		return true
	})
}

// block instruments a statement list and everything nested in it (including function
// literals).
func (r *rewriter) block(list []ast.Stmt) {
	for _, s := range list {
		r.stmt(s, true)
	}
}

func (r *rewriter) nested(n ast.Node) {
	// statement lists nested anywhere below n (blocks, case bodies, func literal bodies)
	ast.Inspect(n, func(x ast.Node) bool {
		if x == n {
			return true
		}
		switch x := x.(type) {
		case *ast.BlockStmt:
			r.block(x.List)
			return false
		case *ast.CaseClause:
			for _, e := range x.List {
				r.nested(e)
			}
			r.block(x.Body)
			return false
		case *ast.CommClause:
			// the comm statement itself belongs to the select; only its body is a list
			r.block(x.Body)
			return false
		}
		return true
	})
}

func (r *rewriter) stmt(s ast.Stmt, canPrefix bool) {
	switch s := s.(type) {
	case *ast.LabeledStmt:
		r.stmt(s.Stmt, false)
		return
	case *ast.GoStmt:
		r.goStmt(s)
		return
	case *ast.SelectStmt:
		r.selectStmt(s, canPrefix)
		return
	case *ast.DeferStmt:
		r.nested(s)
		return
	case *ast.RangeStmt:
		r.rangeStmt(s)
		if ops := r.chanOps(s.X); len(ops) > 0 {
			r.rep.Uninstrumented = append(r.rep.Uninstrumented, "chan-in-range:"+r.site(s.Pos()))
		}
		r.nested(s)
		return
	case *ast.IfStmt, *ast.ForStmt, *ast.SwitchStmt, *ast.TypeSwitchStmt:
		// channel operations in the header are left alone (recorded)
		var hdr []ast.Node
		switch s := s.(type) {
		case *ast.IfStmt:
			hdr = []ast.Node{s.Init, s.Cond}
		case *ast.ForStmt:
			hdr = []ast.Node{s.Init, s.Cond, s.Post}
		case *ast.SwitchStmt:
			hdr = []ast.Node{s.Init, s.Tag}
		case *ast.TypeSwitchStmt:
			hdr = []ast.Node{s.Init, s.Assign}
		}
		for _, h := range hdr {
			if h == nil || isNilNode(h) {
				continue
			}
			if ops := r.chanOps(h); len(ops) > 0 {
				r.rep.Uninstrumented = append(r.rep.Uninstrumented, "chan-in-header:"+r.site(s.Pos()))
			}
		}
		r.nested(s)
		return
	case *ast.BlockStmt:
		r.block(s.List)
		return
	case *ast.CommClause:
		r.block(s.Body)
		return
	case *ast.CaseClause:
		for _, e := range s.List {
			r.nested(e)
		}
		r.block(s.Body)
		return
	}
	// simple statement
	ops := r.chanOps(s)
	if len(ops) > 0 {
		if canPrefix {
			site := r.site(s.Pos())
			args := ""
			for _, o := range ops {
				if o != "" {
					args += ", " + o
				}
			}
			r.ins(s.Pos(), fmt.Sprintf("verifrt.YieldChan(%q%s); ", site, args), 0)
			r.rep.ChanSites = append(r.rep.ChanSites, site)
		} else {
			r.rep.Uninstrumented = append(r.rep.Uninstrumented, "chan-labeled:"+r.site(s.Pos()))
		}
	}
	r.nested(s)
}

func isNilNode(n ast.Node) bool {
	switch v := n.(type) {
	case ast.Stmt:
		return v == nil
	case ast.Expr:
		return v == nil
	}
	return false
}

// chanOps lists the channel operations performed directly by n (not inside nested
// function literals or statement lists) as verifrt.R/S expressions; "" stands for a
// close() call, which never blocks.
func (r *rewriter) chanOps(n ast.Node) []string {
	var ops []string
	ast.Inspect(n, func(x ast.Node) bool {
		switch x := x.(type) {
		case *ast.FuncLit, *ast.BlockStmt, *ast.CaseClause, *ast.CommClause:
			return false
		case *ast.SendStmt:
			ops = append(ops, "verifrt.S("+r.text(x.Chan)+")")
		case *ast.UnaryExpr:
			if x.Op == token.ARROW {
				ops = append(ops, "verifrt.R("+r.text(x.X)+")")
			}
		case *ast.CallExpr:
			if id, ok := x.Fun.(*ast.Ident); ok && id.Name == "close" && len(x.Args) == 1 {
				ops = append(ops, "")
			}
		}
		return true
	})
	return ops
}

func (r *rewriter) goStmt(g *ast.GoStmt) {
	site := r.site(g.Pos())
	r.rep.GoSites = append(r.rep.GoSites, site)
	call := g.Call
	if fl, ok := call.Fun.(*ast.FuncLit); ok && len(call.Args) == 0 {
		// go func(){...}()  ->  verifrt.Go(site, func(){...})
		r.repl(g.Pos(), fl.Pos(), fmt.Sprintf("verifrt.Go(%q, ", site))
		r.repl(fl.End(), call.End(), ")")
		r.block(fl.Body.List)
		return
	}
	// go f(a, b) -> { _vf := f; _va0 := a; _va1 := b; verifrt.Go(site, func(){ _vf(_va0, _va1) }) }
	// (function value and arguments are evaluated at the go statement, as the language
	// requires). The original operand text stays in place so nested rewrites compose.
	r.repl(g.Pos(), call.Fun.Pos(), "{ _vf := ")
	var args []string
	prevEnd := call.Fun.End()
	for i, a := range call.Args {
		v := fmt.Sprintf("_va%d", i)
		r.repl(prevEnd, a.Pos(), "; "+v+" := ")
		args = append(args, v)
		prevEnd = a.End()
	}
	ell := ""
	if call.Ellipsis.IsValid() {
		ell = "..."
	}
	r.repl(prevEnd, g.End(), fmt.Sprintf("; verifrt.Go(%q, func() { _vf(%s%s) }) }", site, strings.Join(args, ", "), ell))
	r.nested(call)
}

func (r *rewriter) selectStmt(s *ast.SelectStmt, canPrefix bool) {
	site := r.site(s.Pos())
	type cc struct {
		expr ast.Expr // channel operand
		send bool
		dflt bool
	}
	var cases []cc
	ok := true
	for _, c := range s.Body.List {
		c := c.(*ast.CommClause)
		switch comm := c.Comm.(type) {
		case nil:
			cases = append(cases, cc{dflt: true})
		case *ast.SendStmt:
			cases = append(cases, cc{expr: comm.Chan, send: true})
		case *ast.ExprStmt:
			if u, isU := comm.X.(*ast.UnaryExpr); isU && u.Op == token.ARROW {
				cases = append(cases, cc{expr: u.X})
			} else {
				ok = false
			}
		case *ast.AssignStmt:
			if len(comm.Rhs) == 1 {
				if u, isU := comm.Rhs[0].(*ast.UnaryExpr); isU && u.Op == token.ARROW {
					cases = append(cases, cc{expr: u.X})
					break
				}
			}
			ok = false
		default:
			ok = false
		}
	}
	if !ok || !canPrefix {
		r.rep.Uninstrumented = append(r.rep.Uninstrumented, "select:"+site)
		r.nested(s)
		return
	}
	var args []string
	ncomm := 0
	for _, c := range cases {
		switch {
		case c.dflt:
			args = append(args, "verifrt.D()")
		case c.send:
			args = append(args, "verifrt.S("+r.text(c.expr)+")")
			ncomm++
		default:
			args = append(args, "verifrt.R("+r.text(c.expr)+")")
			ncomm++
		}
	}
	v := fmt.Sprintf("_vm%d", r.line(s.Pos()))
	r.ins(s.Pos(), fmt.Sprintf("%s := verifrt.Select(%q, %s); _ = %s; ", v, site, strings.Join(args, ", "), v), 0)
	if ncomm >= 2 {
		for i, c := range cases {
			if c.dflt {
				continue
			}
			fn := "verifrt.MaskR"
			if c.send {
				fn = "verifrt.MaskS"
			}
			r.ins(c.expr.Pos(), fmt.Sprintf("%s(%s, %d, ", fn, v, i), 5)
			r.ins(c.expr.End(), ")", -5)
		}
	}
	r.rep.SelectSites = append(r.rep.SelectSites, fmt.Sprintf("%s cases=%d", site, ncomm))
	r.nested(s)
}

func (r *rewriter) rangeStmt(s *ast.RangeStmt) {
	site := r.site(s.Pos())
	isMap := false
	switch x := s.X.(type) {
	case *ast.SelectorExpr:
		isMap = r.fieldIsMap[x.Sel.Name] > 0
	}
	if isMap {
		r.ins(s.X.Pos(), fmt.Sprintf("verifrt.MapSeq(%q, ", site), 5)
		r.ins(s.X.End(), ")", -5)
		r.rep.MapRangeSites = append(r.rep.MapRangeSites, site)
		return
	}
	r.rep.RangeUnknown = append(r.rep.RangeUnknown, site+" "+r.text(s.X))
}
