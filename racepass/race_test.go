// Package racepass is the free-running pass that complements the controlled-scheduler checks.
//
// The explorer of /verif/harness places scheduling points at synchronisation operations, which
// is sound only if the code has no unsynchronised conflicting accesses; and a cooperative
// scheduler's hand-offs are happens-before edges, so the Go race detector is blind under it.
// This package therefore runs the same kinds of concurrent client/handler programs as C15
// (plus the publication reads of C02 and the accessor mutations of C17) against the plain,
// uninstrumented library over real grpc-go (bufconn), with real goroutines, random delays and
// the race detector. It is a sampling pass: it decides nothing by enumeration. A report of the
// race detector is nevertheless a proof of a data race in the execution that produced it.
package racepass

import (
	"context"
	"fmt"
	"io"
	"math/rand"
	"net"
	"os"
	"strconv"
	"sync"
	"sync/atomic"
	"testing"
	"time"

	"github.com/jhump/grpctunnel"
	"github.com/jhump/grpctunnel/tunnelpb"
	"google.golang.org/grpc"
	"google.golang.org/grpc/codes"
	"google.golang.org/grpc/credentials/insecure"
	"google.golang.org/grpc/metadata"
	"google.golang.org/grpc/peer"
	"google.golang.org/grpc/status"
	"google.golang.org/grpc/test/bufconn"
	"google.golang.org/protobuf/types/known/wrapperspb"
)

// ---- a hand-written test service ---------------------------------------------------------

type svc struct{ name string }

func jitter(r *rand.Rand) {
	switch r.Intn(4) {
	case 0:
	case 1:
		for i := 0; i < r.Intn(50); i++ {
			_ = i
		}
	case 2:
		time.Sleep(time.Duration(r.Intn(50)) * time.Microsecond)
	case 3:
		time.Sleep(time.Duration(r.Intn(500)) * time.Microsecond)
	}
}

var seedCtr atomic.Int64

func newRand() *rand.Rand { return rand.New(rand.NewSource(baseSeed + seedCtr.Add(1))) }

var baseSeed = func() int64 {
	if v, err := strconv.ParseInt(os.Getenv("VERIF_SEED"), 10, 64); err == nil {
		return v * 1000003
	}
	return 1
}()

func (s *svc) unary(ctx context.Context, dec func(any) error) (any, error) {
	r := newRand()
	in := &wrapperspb.BytesValue{}
	if err := dec(in); err != nil {
		return nil, err
	}
	// the accessors return private copies: mutate them
	if md, ok := grpctunnel.TunnelMetadataFromIncomingContext(ctx); ok {
		md.Set("mutated", s.name)
		for k := range md {
			if len(md[k]) > 0 {
				md[k][0] = "x"
			}
		}
	}
	if md, ok := metadata.FromIncomingContext(ctx); ok {
		md.Set("mutated", s.name)
	}
	_ = grpc.SetHeader(ctx, metadata.Pairs("h", "1"))
	jitter(r)
	_ = grpc.SetTrailer(ctx, metadata.Pairs("t", "1"))
	if len(in.Value) > 0 && in.Value[0] == 'E' {
		return nil, status.Error(codes.Aborted, "scripted")
	}
	return &wrapperspb.BytesValue{Value: in.Value}, nil
}

func (s *svc) bidi(ss grpc.ServerStream) error {
	r := newRand()
	_ = ss.SetHeader(metadata.Pairs("h", "1"))
	ss.SetTrailer(metadata.Pairs("t", "1"))
	if md, ok := grpctunnel.TunnelMetadataFromIncomingContext(ss.Context()); ok {
		md.Set("mutated", s.name)
	}
	for {
		in := &wrapperspb.BytesValue{}
		err := ss.RecvMsg(in)
		if err == io.EOF {
			return nil
		}
		if err != nil {
			return err
		}
		jitter(r)
		switch {
		case len(in.Value) > 0 && in.Value[0] == 'B':
			// a response larger than a window: the handler blocks until the caller reads
			if err := ss.SendMsg(&wrapperspb.BytesValue{Value: make([]byte, 100000)}); err != nil {
				return err
			}
		case len(in.Value) > 0 && in.Value[0] == 'M':
			// many small responses
			for i := 0; i < 6; i++ {
				if err := ss.SendMsg(&wrapperspb.BytesValue{Value: []byte{byte(i)}}); err != nil {
					return err
				}
			}
		case len(in.Value) > 0 && in.Value[0] == 'P':
			// pipelined: responses are sent from a second goroutine while this one keeps
			// receiving (one sender plus one receiver on a stream is allowed)
			done := make(chan struct{})
			go func() {
				defer close(done)
				for i := 0; i < 4; i++ {
					if ss.SendMsg(&wrapperspb.BytesValue{Value: []byte{byte(i)}}) != nil {
						return
					}
				}
			}()
			defer func() { <-done }()
		case len(in.Value) > 0 && in.Value[0] == 'R':
			return status.Error(codes.Aborted, "scripted")
		default:
			if err := ss.SendMsg(&wrapperspb.BytesValue{Value: in.Value}); err != nil {
				return err
			}
		}
	}
}

var svcDesc = grpc.ServiceDesc{
	ServiceName: "race.T",
	HandlerType: (*any)(nil),
	Methods: []grpc.MethodDesc{{MethodName: "Unary", Handler: func(srv any, ctx context.Context, dec func(any) error, _ grpc.UnaryServerInterceptor) (any, error) {
		return srv.(*svc).unary(ctx, dec)
	}}},
	Streams: []grpc.StreamDesc{{StreamName: "Bidi", ClientStreams: true, ServerStreams: true, Handler: func(srv any, ss grpc.ServerStream) error { return srv.(*svc).bidi(ss) }}},
}

var bidiDesc = &grpc.StreamDesc{ClientStreams: true, ServerStreams: true}

// ---- environment --------------------------------------------------------------------------

type env struct {
	t       *testing.T
	h       *grpctunnel.TunnelServiceHandler
	gs      *grpc.Server
	cc      *grpc.ClientConn
	conn    grpc.ClientConnInterface
	ch      grpctunnel.TunnelChannel
	rs      *grpctunnel.ReverseTunnelServer
	cancel  context.CancelFunc
	served  chan struct{}
	reverse bool
	noFC    bool
}

func newEnv(t *testing.T, reverse, noFC bool) *env {
	e := &env{t: t, reverse: reverse, noFC: noFC}
	e.h = grpctunnel.NewTunnelServiceHandler(grpctunnel.TunnelServiceHandlerOptions{DisableFlowControl: noFC})
	if !reverse {
		e.h.RegisterService(&svcDesc, &svc{name: "fwd"})
	}
	lis := bufconn.Listen(1 << 20)
	e.gs = grpc.NewServer()
	tunnelpb.RegisterTunnelServiceServer(e.gs, e.h.Service())
	go func() { _ = e.gs.Serve(lis) }()
	cc, err := grpc.NewClient("passthrough:///bufnet", grpc.WithContextDialer(func(context.Context, string) (net.Conn, error) { return lis.Dial() }),
		grpc.WithTransportCredentials(insecure.NewCredentials()))
	if err != nil {
		t.Fatal(err)
	}
	e.cc = cc
	ctx, cancel := context.WithCancel(context.Background())
	ctx = metadata.NewOutgoingContext(ctx, metadata.Pairs("a", "1", "a", "2"))
	e.cancel = cancel
	stub := tunnelpb.NewTunnelServiceClient(cc)
	if !reverse {
		ch, err := grpctunnel.NewChannel(stub).Start(ctx)
		if err != nil {
			t.Fatal(err)
		}
		e.ch, e.conn = ch, ch
		return e
	}
	e.rs = e.openReverse(ctx, "rev")
	wctx, wcancel := context.WithTimeout(context.Background(), 10*time.Second)
	defer wcancel()
	if err := e.h.AsChannel().WaitForReady(wctx); err != nil {
		t.Fatal(err)
	}
	e.conn = e.h.AsChannel()
	return e
}

func (e *env) openReverse(ctx context.Context, name string) *grpctunnel.ReverseTunnelServer {
	var opts []grpctunnel.TunnelOption
	rs := grpctunnel.NewReverseTunnelServer(tunnelpb.NewTunnelServiceClient(e.cc), opts...)
	rs.RegisterService(&svcDesc, &svc{name: name})
	served := make(chan struct{})
	if e.served == nil {
		e.served = served
	}
	go func() {
		_, _ = rs.Serve(ctx)
		close(served)
	}()
	return rs
}

func (e *env) close() {
	if e.ch != nil {
		e.ch.Close()
		<-e.ch.Done()
	}
	if e.rs != nil {
		e.rs.Stop()
	}
	e.cancel()
	if e.served != nil {
		select {
		case <-e.served:
		case <-time.After(10 * time.Second):
			e.t.Errorf("Serve did not return")
		}
	}
	e.cc.Close()
	e.gs.Stop()
}

// ---- programs -----------------------------------------------------------------------------

type program struct {
	name string
	// modes: which of forward/reverse x fc/nofc it runs in
	reverse []bool
	noFC    []bool
	run     func(e *env, r *rand.Rand)
}

func unaryCall(e *env, r *rand.Rand, payload string) {
	ctx, cancel := context.WithTimeout(context.Background(), 10*time.Second)
	defer cancel()
	var hdr, tlr metadata.MD
	var ch grpctunnel.TunnelChannel
	var pr peer.Peer
	resp := &wrapperspb.BytesValue{}
	err := e.conn.Invoke(ctx, "/race.T/Unary", &wrapperspb.BytesValue{Value: []byte(payload)}, resp,
		grpc.Header(&hdr), grpc.Trailer(&tlr), grpctunnel.WithTunnelChannel(&ch), grpc.Peer(&pr))
	// the targets may be read as soon as Invoke has returned
	_ = len(hdr["h"])
	_ = len(tlr["t"])
	_ = ch
	_ = pr.Addr
	_ = err
}

// splitBidi: send side, receive side and Header() of one RPC on three goroutines; Trailer() is
// read right after the terminal result, on the receiving goroutine.
func splitBidi(e *env, r *rand.Rand, payloads []string, cancelAfter time.Duration) {
	ctx, cancel := context.WithTimeout(context.Background(), 10*time.Second)
	defer cancel()
	var hdr, tlr metadata.MD
	var pr peer.Peer
	var tch grpctunnel.TunnelChannel
	cs, err := e.conn.NewStream(ctx, bidiDesc, "/race.T/Bidi", grpc.Header(&hdr), grpc.Trailer(&tlr), grpc.Peer(&pr), grpctunnel.WithTunnelChannel(&tch))
	if err != nil {
		return
	}
	_ = pr.Addr
	_ = tch
	if md, ok := grpctunnel.TunnelMetadataFromOutgoingContext(cs.Context()); ok {
		md.Set("mutated", "caller")
	}
	_ = grpctunnel.TunnelChannelFromContext(cs.Context())
	var wg sync.WaitGroup
	wg.Add(3)
	go func() {
		defer wg.Done()
		rr := newRand()
		for _, p := range payloads {
			jitter(rr)
			if cs.SendMsg(&wrapperspb.BytesValue{Value: []byte(p)}) != nil {
				break
			}
		}
		_ = cs.CloseSend()
	}()
	go func() {
		defer wg.Done()
		rr := newRand()
		for {
			m := &wrapperspb.BytesValue{}
			if err := cs.RecvMsg(m); err != nil {
				break
			}
			jitter(rr)
		}
		// terminal result seen: trailers and targets are published
		_ = len(cs.Trailer()["t"])
		_ = len(tlr["t"])
		_ = len(hdr["h"])
	}()
	go func() {
		defer wg.Done()
		jitter(newRand())
		h, _ := cs.Header()
		_ = len(h["h"])
	}()
	if cancelAfter > 0 {
		time.Sleep(time.Duration(r.Int63n(int64(cancelAfter))))
		cancel()
	}
	wg.Wait()
}

func programs() []program {
	both := []bool{false, true}
	return []program{
		{name: "send||recv||header", reverse: both, noFC: both, run: func(e *env, r *rand.Rand) {
			splitBidi(e, r, []string{"a", "P", "c"}, 0)
		}},
		{name: "many-rpcs", reverse: both, noFC: both, run: func(e *env, r *rand.Rand) {
			var wg sync.WaitGroup
			for i := 0; i < 4; i++ {
				wg.Add(1)
				go func(i int) {
					defer wg.Done()
					rr := newRand()
					if i%2 == 0 {
						unaryCall(e, rr, []string{"ok", "E"}[i/2%2])
					} else {
						splitBidi(e, rr, []string{"a", "M", "R"}[:1+i/2+1], 0)
					}
				}(i)
			}
			wg.Wait()
		}},
		{name: "rpc||cancel", reverse: both, noFC: both, run: func(e *env, r *rand.Rand) {
			splitBidi(e, r, []string{"a", "P", "b", "M"}, 2*time.Millisecond)
			unaryCall(e, r, "ok")
		}},
		{name: "blocked-handler-send||cancel||rpc", reverse: both, noFC: []bool{false}, run: func(e *env, r *rand.Rand) {
			ctx, cancel := context.WithCancel(context.Background())
			cs, err := e.conn.NewStream(ctx, bidiDesc, "/race.T/Bidi")
			if err != nil {
				cancel()
				return
			}
			_ = cs.SendMsg(&wrapperspb.BytesValue{Value: []byte("B")})
			time.Sleep(time.Duration(r.Intn(3000)) * time.Microsecond)
			var wg sync.WaitGroup
			wg.Add(2)
			go func() { defer wg.Done(); cancel() }()
			go func() { defer wg.Done(); unaryCall(e, newRand(), "ok") }()
			wg.Wait()
			_ = cs.RecvMsg(&wrapperspb.BytesValue{})
		}},
		{name: "stalled-stream||cancel||rpc", reverse: both, noFC: []bool{true}, run: func(e *env, r *rand.Rand) {
			ctx, cancel := context.WithCancel(context.Background())
			cs, err := e.conn.NewStream(ctx, bidiDesc, "/race.T/Bidi")
			if err != nil {
				cancel()
				return
			}
			_ = cs.SendMsg(&wrapperspb.BytesValue{Value: []byte("M")})
			time.Sleep(time.Duration(r.Intn(3000)) * time.Microsecond)
			cancel()
			unaryCall(e, newRand(), "ok")
		}},
		{name: "rpcs||close", reverse: []bool{false}, noFC: both, run: func(e *env, r *rand.Rand) {
			var wg sync.WaitGroup
			wg.Add(3)
			go func() { defer wg.Done(); unaryCall(e, newRand(), "ok") }()
			go func() { defer wg.Done(); splitBidi(e, newRand(), []string{"a", "M"}, 0) }()
			go func() {
				defer wg.Done()
				rr := newRand()
				jitter(rr)
				jitter(rr)
				e.ch.Close()
				_ = e.ch.Err()
				select {
				case <-e.ch.Done():
				default:
				}
				_ = e.ch.Context().Err()
			}()
			wg.Wait()
		}},
		{name: "rpcs||stop||gracefulstop||queries||open", reverse: []bool{true}, noFC: both, run: func(e *env, r *rand.Rand) {
			var wg sync.WaitGroup
			wg.Add(6)
			ctx2, cancel2 := context.WithCancel(context.Background())
			defer cancel2()
			var rs2 *grpctunnel.ReverseTunnelServer
			go func() { defer wg.Done(); unaryCall(e, newRand(), "ok") }()
			go func() { defer wg.Done(); splitBidi(e, newRand(), []string{"a", "M"}, 0) }()
			go func() {
				defer wg.Done()
				rr := newRand()
				for i := 0; i < 3; i++ {
					jitter(rr)
					_ = e.h.AsChannel().Ready()
					_ = len(e.h.AllReverseTunnels())
					_ = e.h.KeyAsChannel(nil).Ready()
				}
			}()
			go func() { defer wg.Done(); rs2 = e.openReverse(ctx2, "rev2") }()
			go func() { defer wg.Done(); rr := newRand(); jitter(rr); jitter(rr); e.rs.GracefulStop() }()
			go func() {
				defer wg.Done()
				rr := newRand()
				jitter(rr)
				jitter(rr)
				jitter(rr)
				e.rs.Stop()
			}()
			wg.Wait()
			if rs2 != nil {
				rs2.Stop()
			}
		}},
	}
}

// TestRacePass runs every program in every mode repeatedly for VERIF_RACE_S seconds in total
// (each iteration on a fresh environment) and prints how many iterations were run. Race
// reports are written by the runtime (GORACE log_path) and judged by the caller.
func TestRacePass(t *testing.T) {
	budget := 20 * time.Second
	if v, err := strconv.Atoi(os.Getenv("VERIF_RACE_S")); err == nil && v > 0 {
		budget = time.Duration(v) * time.Second
	}
	type job struct {
		p             program
		reverse, noFC bool
	}
	var jobs []job
	for _, p := range programs() {
		for _, rev := range p.reverse {
			for _, nofc := range p.noFC {
				jobs = append(jobs, job{p, rev, nofc})
			}
		}
	}
	deadline := time.Now().Add(budget)
	counts := make([]int64, len(jobs))
	var wg sync.WaitGroup
	// four jobs at a time, so that real parallelism is available to each
	sem := make(chan struct{}, 4)
	for round := 0; time.Now().Before(deadline); round++ {
		for i, j := range jobs {
			if !time.Now().Before(deadline) && round > 0 {
				break
			}
			wg.Add(1)
			sem <- struct{}{}
			go func(i int, j job) {
				defer wg.Done()
				defer func() { <-sem }()
				done := make(chan struct{})
				go func() {
					defer close(done)
					e := newEnv(t, j.reverse, j.noFC)
					j.p.run(e, newRand())
					e.close()
				}()
				select {
				case <-done:
					atomic.AddInt64(&counts[i], 1)
				case <-time.After(30 * time.Second):
					// not this pass's business (deadlocks are decided by the explorer), but say so
					fmt.Printf("RACEPASS-STUCK %s reverse=%v nofc=%v\n", j.p.name, j.reverse, j.noFC)
				}
			}(i, j)
		}
	}
	wg.Wait()
	total := int64(0)
	for i, j := range jobs {
		fmt.Printf("RACEPASS-PROGRAM %q reverse=%v nofc=%v iterations=%d\n", j.p.name, j.reverse, j.noFC, counts[i])
		total += counts[i]
	}
	fmt.Printf("RACEPASS-TOTAL programs=%d iterations=%d seconds=%d\n", len(jobs), total, int(budget.Seconds()))
}
