#!/bin/bash
# regress.sh: every quick check on the unchanged tree (must exit 0), then every seeded change and every
# mutant against the check of its property on a scratch copy (must be DETECTED). Prints a summary.
cd "$(dirname "$0")"
echo "== quick checks on the unchanged tree"
for i in 01 02 03 04 05 06 07 08 09 10 11 12 13 14 15 16 17 18; do
  out=$(./vcheck C$i 2>&1); rc=$?
  echo "C$i rc=$rc $(echo "$out" | grep '^property=' | sed 's/.*executions=\([0-9]*\).*exhaustive=\([a-z]*\) wall=\(.*\)/exec=\1 exhaustive=\2 wall=\3/')"
  echo "$out" | grep "^VIOLATION" | head -3
done
echo "== seeded changes"
for d in seeded/*/; do
  id=$(basename $d); prop=${id%%-*}
  [ -f $d/patch.diff ] || continue
  r=$(./selftest.sh $d/patch.diff $prop quick 2>&1 | tail -1)
  echo "$id: $r"
done
echo "== mutants"
for p in mutants/*.patch; do
  n=$(basename $p .patch); prop=$(echo ${n%%-*} | tr a-z A-Z)
  r=$(./selftest.sh $p $prop quick 2>&1 | tail -1)
  echo "$n: $r"
done
