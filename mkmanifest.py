#!/usr/bin/env python3
"""Regenerates MANIFEST.json from the table below (kept next to the checks it describes)."""
import json, os
V = os.path.dirname(os.path.abspath(__file__))

TB = ("trusted base: go1.26.8 testing/synctest (quiescence detection, virtual clock); the overlay instrumenter and the sync/atomic shims "
      "(semantics-preserving: the pinned suite passes against the instrumented-but-inert build, see setup_cmd); the in-memory carrier "
      "(memconn) as a model of a grpc-go stream; data-race freedom of the code under test for the one-thread-per-step determinism argument "
      "(replay divergence is a harness error, never a violation); bounds as stated in the evidence file")

CHECKS = {
 "C01": ("model_checking", "deviation-bounded DFS over schedules x sizes x termination points of the real tunnel; content-pattern prefix oracle",
         "Every execution is the real implementation under a controlled scheduler. Enumerated completely: every dir x flow-control x shape x size list over the chunk/window boundary alphabet (D<=1 quick, 2 thorough, carrier/application granularity); 2-3 concurrent RPCs; every termination cause at every quiescent point; lock/atomic/condition/channel granularity inside the framing and flow-control functions (D<=2/3) and with a termination cause in either order (two default-scheduler families).", "3.C01"),
 "C02": ("model_checking", "exhaustive input enumeration (statuses, metadata maps, handler op sequences, call options) + deviation-bounded DFS at lock granularity of the client's completion path; reference model of gRPC header/trailer rules",
         "Inputs: finite alphabets enumerated completely and executed on the real tunnel. Schedules: all with <= 2 (quick) / 3 (thorough) deviations where every synchronisation operation of finishStream / Header / Trailer / RecvMsg / Invoke is a scheduling point, with Trailer() and option targets read immediately after the terminal result; handlers that reject without reading at the lock granularity of the caller's send path (both default-scheduler families); scripted handlers keep mutating the metadata maps they handed to SetHeader/SetTrailer.", "3.C02"),
 "C03": ("model_checking", "deviation-bounded DFS over all frame timings of bystander RPCs against each kind of disturber RPC; oracle: bystanders end exactly as alone",
         "All relative timings with <= 1 (quick) / 2 (thorough) deviations of bystander sets x 11 disturbers x forward/reverse x carrier capacity 1/unbounded; hang decided exactly (no enabled thread, virtual clock exhausted); 15 disturbers incl. exact-window messages and graceful shutdown on forward and reverse tunnels.", "3.C03"),
 "C04": ("fault_enumeration", "every termination cause at every quiescent point of stuck-in-every-phase workloads; TERM + leak oracle",
         "Fault enumeration: cause x k for every quiescent point k of the run (quick), plus one further schedule deviation (thorough), for 8 causes x flow control / revision zero x 7 in-flight sets; plus a watcher goroutine that waits for Done() and reads Err() at once, at the lock granularity of close(), D<=2, both scheduler families.", "3.C04"),
 "C05": ("model_checking", "unbounded / deviation-bounded DFS of the real flow-control core at atomic-operation granularity + frame-level DFS of whole tunnels with a credit-conservation invariant at idle states",
         "Core: all interleavings (small configurations) or all with <= 3/4 deviations of send vs. window updates vs. cancel and accept vs. dequeue vs. close/cancel on the real defaultSender/defaultReceiver. Tunnel: 1-3 streams x 2-3 windows x capacities {1,2,unbounded} with the invariant sender window == peer receiver window at every idle quiescent point.", "3.C05"),
 "C06": ("model_checking", "wire monitor of the window invariants on every frame of every execution + enumerated overrunning raw peers (both roles)",
         "Overrun by {1, 16384, 196608} bytes x {envelope, continuation, new message} x {0,1,4} frames consumed, both roles, all schedules with <= 1/2 deviations; plus the same overruns arriving while the receiving application is parked in a window-limited SendMsg; plus the C05 tunnel and C01 multi-RPC workloads re-run with only the window and protocol monitors; every execution's heap allocation bounded (32 MiB).", "3.C06"),
 "C07": ("fault_enumeration", "cancel / deadline at every quiescent point of an RPC x orderings of the racing frames; exactly-one-legal-outcome oracle",
         "Every point of every shape x handler variant x direction x flow control; thorough adds one further deviation which orders the cancel frame against the peer's close/data/window frames.", "3.C07"),
 "C08": ("model_checking", "deviation-bounded DFS of concurrent stream creation at lock granularity + exhaustive raw-peer id histories against a reference automaton",
         "2-3 goroutines starting RPCs with every lock/atomic/channel operation of creation, id allocation and the send wrappers as a scheduling point; every id history of length <= 3 (quick) / 4 (thorough) over 20 frames, plus 806 histories following new_stream(MaxInt64).", "3.C08"),
 "C09": ("model_checking", "bounded-exhaustive frame histories in both roles against a protocol reference classifier",
         "Every history of length <= 3 over a 26-frame client alphabet (thorough: + every length-4 history that opens a stream first) against the real server, and of length <= 3 over a 22-frame server alphabet against the real client; plus histories whose envelope announces 1 MiB .. 4 GiB but carries little (all four roles); panic capture, exact hang detection, leak, window-bound and per-execution allocation-bound (32 MiB) oracles.", "3.C09"),
 "C10": ("model_checking", "graceful shutdown at every quiescent point x in-flight workloads x later RPCs; differential oracle (in-flight RPCs end as without shutdown)",
         "Shutdown alone at every point (quick) plus one further deviation (thorough) over 7 in-flight sets x 1-2 later RPCs x forward/reverse x flow control; Stop ordering checked on the virtual step clock.", "3.C10"),
 "C11": ("exploration", "full configuration matrix + enumerated settings messages against a reference negotiation function, wire facts from the tap",
         "Configurations and settings messages are finite sets enumerated completely, each explored with <= 1 (quick) / 2 (thorough) schedule deviations; quantifier is over configurations/inputs, hence exploration.", "3.C11"),
 "C12": ("model_checking", "registry histories with every lock/atomic/channel operation of the registry code as a scheduling point; set-model oracle at check points",
         "Open/close (4 ways)/route/query histories over <= 4 tunnels and 3 keys, all schedules with <= 1 (quick) / 2 (thorough) deviations.", "3.C12"),
 "C13": ("model_checking", "online protocol automaton (from tunnel.proto) on every frame of the union scenario set + handler-vs-receive-loop emission races at lock granularity",
         "Union of the scenario families of C01, C02, C04, C07, C10, C16 each at its own bound, plus dedicated finishStream races with <= 2/3 deviations.", "3.C13"),
 "C14": ("model_checking", "table / goroutine oracle (white-box dump by reflection, thread census, bubble drain) after every execution and at idle quiescent points of the termination-heavy union set",
         "Union of C04, C07, C10, C03, C01-termination, C09, C16 scenario families each at its own bound.", "3.C14"),
 "C15": ("model_checking", "deviation-bounded DFS of concurrent API programs with EVERY synchronisation operation of the library as a scheduling point; no panic / deadlock / atomicity violation; plus a separate free-running Go-race-detector pass (sampling, not enumeration) for the data-race clause",
         "Decided by enumeration: panics, deadlocks and atomicity (message and metadata oracles) for all schedules with <= 1 (quick) / 2 (thorough) deviations of 8 concurrent programs. The literal data-race clause cannot be decided by enumeration under a cooperative scheduler (its hand-offs are happens-before edges) and is covered by a separate free-running pass of 20 program/mode combinations against the plain library over real grpc-go under the race detector (20 s quick / 240 s thorough): a report is a proof of a race and fails the check; silence of that pass is sampling evidence only (evidence: coverage.race_pass).", "3.C15"),
 "C16": ("exploration", "enumerated raw-peer request/response frame sequences for the 4 call shapes + application send sequences",
         "All sequences with 0..3 messages x whole/split x half-close position (both roles) and 1..3 application sends, each with <= 1 (quick) / 2 (thorough) schedule deviations.", "3.C16"),
 "C17": ("exploration", "configuration matrix (mode x opening metadata) with concurrent mutators of every accessor result; multi-tunnel channel identity",
         "Forward / reverse / nested x 3 opening metadata values x mutating concurrent RPCs, <= 1/2 deviations.", "3.C17"),
 "C18": ("exploration", "bounded-exhaustive enumeration of grpc-timeout header values against the gRPC spec decoder, executed on the real tunnel in virtual time",
         "Inputs only: every value of an explicit finite set is run through the public API on the real tunnel and the handler's deadline compared with the spec decoder.", "3.C18"),
}

PENDING = {}

def main():
    props = [json.loads(l) for l in open(os.path.join(V, "properties.jsonl"))]
    checks, na = [], []
    for p in props:
        i = p["id"]
        if i in CHECKS:
            lvl, tech, text, ref = CHECKS[i]
            checks.append({
                "property_id": i,
                "quick_cmd": f"./vcheck {i} --tier quick",
                "thorough_cmd": f"./vcheck {i} --tier thorough",
                "evidence_file": f"/verif/evidence/{i}.json",
                "replay_cmd_template": "./vcheck replay {path}",
                "engine": "vcheck",
                "level_claimed": {"category": lvl, "text": text, "design_ref": "DESIGN.md " + ref},
                "level_note": TB,
                "technique": tech,
            })
        else:
            na.append({"property_id": i, "reason": PENDING.get(i, "check not built yet in this session (planned, see DESIGN.md section 3); not claimed until it runs clean and detects its seeded changes")})
    m = {
        "version": 1,
        "setup_cmd": "./setup.sh",
        "hooks": {
            "guard": "verif-overlay",
            "enable": "go1.26.8 test -c -overlay <generated overlay.json> (the overlay is generated from /repo's working tree by /verif/bin/instrument at the start of every check; no hook source is committed to /repo)",
            "baseline_off_cmd": "cd /repo && GOFLAGS=-mod=mod GOPROXY=off go test -vet=off -count=1 -timeout 25m ./...",
            "source_commits": [],
            "add_only": True,
        },
        "engines": [{"name": "vcheck", "path": "/verif/vcheck", "serves_properties": sorted(CHECKS),
                     "kind_free_text": "stateless model checker for the real implementation: go build -overlay instrumentation (sync/atomic shims, yields before channel operations, owned select/map order, named goroutines) + cooperative scheduler in a testing/synctest bubble + in-memory carrier + deviation-bounded / unbounded DFS, 16 worker processes"}],
        "checks": checks,
        "not_applicable": na,
        "notes": "Exit codes: 0 held (KNOWN-FINDING lines possible), 1 VIOLATION, 2 harness error (never with a VIOLATION line). VERIF_BUDGET_S overrides the per-tier time budget; a budget cut is reported as exhaustive:false, never as a failure.",
    }
    json.dump(m, open(os.path.join(V, "MANIFEST.json"), "w"), indent=1)
    print("checks:", len(checks), "not_applicable:", len(na))

main()
