#!/usr/bin/env python3
"""Regenerates MANIFEST.json from the table below (kept next to the checks it describes)."""
import json, os
V = os.path.dirname(os.path.abspath(__file__))

TB = ("trusted base: go1.26.8 testing/synctest (quiescence detection, virtual clock); the overlay instrumenter and the sync/atomic shims "
      "(semantics-preserving: the pinned suite passes against the instrumented-but-inert build, see setup_cmd); the in-memory carrier "
      "(memconn) as a model of a grpc-go stream; data-race freedom of the code under test for the one-thread-per-step determinism argument "
      "(replay divergence is a harness error, never a violation); bounds as stated in the evidence file")

CHECKS = {
 "C01": ("model_checking", "deviation-bounded DFS over schedules x sizes x termination points of the real tunnel, content-pattern prefix oracle",
         "Every execution is the real implementation under a controlled scheduler; all schedules with <= D deviations from a deterministic default (D=1 quick, 2 thorough at carrier/application granularity; D=2/3 at lock/atomic/channel granularity inside the framing and flow-control functions) for every dir x flow-control x shape x size list over the chunk/window boundary alphabet, for 2-3 concurrent RPCs, and for every termination cause at every quiescent point. Exhaustive within the bound; nothing sampled.", "3.C01"),
 "C18": ("exploration", "bounded-exhaustive enumeration of grpc-timeout header values against the gRPC spec decoder, executed on the real tunnel in virtual time",
         "Inputs only: the property quantifies over header values; every value of an explicit finite set (all short strings over a sign/digit/unit alphabet, all digit-string lengths 1..20 per unit, the int64 overflow boundaries, repeated headers) is run through the public API on the real tunnel and the handler's deadline compared with the spec decoder.", "3.C18"),
}

PENDING = {}

def main():
    props = [json.loads(l) for l in open(os.path.join(V, "properties.jsonl"))]
    checks, na = [], []
    for p in props:
        i = p["id"]
        if i in CHECKS:
            lvl, tech, text, ref = CHECKS[i]
            checks.append({
                "property_id": i,
                "quick_cmd": f"./vcheck {i} --tier quick",
                "thorough_cmd": f"./vcheck {i} --tier thorough",
                "evidence_file": f"/verif/evidence/{i}.json",
                "replay_cmd_template": "./vcheck replay {path}",
                "engine": "vcheck",
                "level_claimed": {"category": lvl, "text": text, "design_ref": "DESIGN.md " + ref},
                "level_note": TB,
                "technique": tech,
            })
        else:
            na.append({"property_id": i, "reason": PENDING.get(i, "check not built yet in this session (planned, see DESIGN.md section 3); not claimed until it runs clean and detects its seeded changes")})
    m = {
        "version": 1,
        "setup_cmd": "./setup.sh",
        "hooks": {
            "guard": "verif-overlay",
            "enable": "go1.26.8 test -c -overlay <generated overlay.json> (the overlay is generated from /repo's working tree by /verif/bin/instrument at the start of every check; no hook source is committed to /repo)",
            "baseline_off_cmd": "cd /repo && GOFLAGS=-mod=mod GOPROXY=off go test -vet=off -count=1 -timeout 25m ./...",
            "source_commits": [],
            "add_only": True,
        },
        "engines": [{"name": "vcheck", "path": "/verif/vcheck", "serves_properties": sorted(CHECKS),
                     "kind_free_text": "stateless model checker for the real implementation: go build -overlay instrumentation (sync/atomic shims, yields before channel operations, owned select/map order, named goroutines) + cooperative scheduler in a testing/synctest bubble + in-memory carrier + deviation-bounded / unbounded DFS, 16 worker processes"}],
        "checks": checks,
        "not_applicable": na,
        "notes": "Exit codes: 0 held (KNOWN-FINDING lines possible), 1 VIOLATION, 2 harness error (never with a VIOLATION line). VERIF_BUDGET_S overrides the per-tier time budget; a budget cut is reported as exhaustive:false, never as a failure.",
    }
    json.dump(m, open(os.path.join(V, "MANIFEST.json"), "w"), indent=1)
    print("checks:", len(checks), "not_applicable:", len(na))

main()
