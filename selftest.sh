#!/bin/bash
# selftest.sh <patch-file> <Cnn> [tier]   apply a property-breaking change to a scratch copy of
# /repo (never to /repo itself), run the check against it, report DETECTED / MISSED, clean up.
set -u
V=$(cd "$(dirname "$0")" && pwd)
PATCH=$(realpath "$1"); ID=$2; TIER=${3:-quick}
S=$HOME/.cache/verif-scratch/$$
mkdir -p "$S"
trap 'rm -rf "$S"' EXIT
rsync -a --exclude .git /repo/ "$S"/
(cd "$S" && patch -p1 -s < "$PATCH") || { echo "PATCH-FAILED $PATCH"; exit 2; }
OUT=$(VERIF_REPO="$S" VERIF_NO_EVIDENCE=1 "$V/vcheck" "$ID" --tier "$TIER" 2>&1)
RC=$?
echo "$OUT" | grep "^VIOLATION\|^property=\|HARNESS" | cut -c1-250 | head -6
if [ $RC -eq 1 ]; then echo "DETECTED $(basename "$PATCH") by $ID/$TIER"; exit 0; fi
echo "MISSED $(basename "$PATCH") by $ID/$TIER (rc=$RC)"; exit 1
