package harness

import (
	"context"
	"fmt"
	"strings"

	"github.com/jhump/grpctunnel"
	"github.com/jhump/grpctunnel/tunnelpb"
	"google.golang.org/grpc/codes"
)

// c06: scripted peers that overrun the flow-control window of one of two streams.

type overrun struct {
	delta    int    // bytes beyond the window
	place    string // envelope | continuation | newmsg
	consumed int    // 16 KiB frames the application consumed (and were credited) before
	// peerWin is the window the misbehaving peer announces for ITS OWN receiving direction
	// (new_stream.initial_window_size resp. settings.initial_window_size); it must have no
	// influence on the window the real endpoint enforces for what it receives
	peerWin uint32
	// sendBlocked: before the overrun, the receiving application is blocked in a send of its
	// own on the same stream (it has used up the window peerWin and gets no credit)
	sendBlocked bool
}

func (o overrun) String() string {
	s := fmt.Sprintf("delta=%d/%s/consumed=%d/peerwin=%d", o.delta, o.place, o.consumed, o.peerWin)
	if o.sendBlocked {
		s += "/sendblocked"
	}
	return s
}

// overrunPlan returns the data frames (as (first, size, len) triples) that fill the window
// exactly after `consumed` frames were consumed, followed by the overrunning frame(s).
type dframe struct {
	first bool
	size  uint32
	n     int
	data  []byte // nil: n zero bytes (content of a message that never completes)
}

func (f dframe) bytes() []byte {
	if f.data != nil {
		return f.data
	}
	return make([]byte, f.n)
}

func overrunPlan(o overrun, dir int) (pre []dframe, fill []dframe, over []dframe) {
	if o.consumed > 0 {
		// message 1: consumed x 16384 bytes, read completely by the application
		b := msgBytes(1, dir, 0, o.consumed*protoChunk)
		for i := 0; i < o.consumed; i++ {
			pre = append(pre, dframe{i == 0, uint32(len(b)), protoChunk, b[i*protoChunk : (i+1)*protoChunk]})
		}
	}
	// fill: one message that will never complete, exactly one window so far
	declared := uint32(protoWindow + o.delta + 10)
	if o.place == "newmsg" {
		declared = protoWindow
	}
	if o.place == "envelope" {
		// the window is filled by complete 16 KiB messages, the overrun comes in an envelope
		for i := 0; i < protoWindow/protoChunk; i++ {
			fill = append(fill, dframe{true, protoChunk, protoChunk, msgBytes(1, dir, 1+i, protoChunk)})
		}
	} else if o.place == "newmsg" {
		// one valid message of exactly one window; the overrun starts a new message
		b := msgBytes(1, dir, 9, protoWindow)
		for i := 0; i < protoWindow/protoChunk; i++ {
			fill = append(fill, dframe{i == 0, declared, protoChunk, b[i*protoChunk : (i+1)*protoChunk]})
		}
	} else {
		for i := 0; i < protoWindow/protoChunk; i++ {
			fill = append(fill, dframe{i == 0, declared, protoChunk, nil})
		}
	}
	left := o.delta
	firstOver := o.place != "continuation"
	for left > 0 {
		n := left
		if n > protoChunk {
			n = protoChunk
		}
		over = append(over, dframe{firstOver, uint32(o.delta), n, nil})
		firstOver = false
		left -= n
	}
	return
}

func c06Scenarios(tier string) []*Scenario {
	var scs []*Scenario
	bound := 1
	if tier == "thorough" {
		bound = 2
	}
	var ovs []overrun
	for _, d := range []int{1, 16384, 3 * 65536} {
		for _, p := range []string{"envelope", "continuation", "newmsg"} {
			for _, k := range []int{0, 1, 4} {
				ovs = append(ovs, overrun{delta: d, place: p, consumed: k, peerWin: 65536})
			}
			ovs = append(ovs, overrun{delta: d, place: p, peerWin: 1 << 24}, overrun{delta: d, place: p, peerWin: 1024})
		}
	}
	// a peer that stays exactly within the 64 KiB window must never be refused, whatever window
	// it announces for its own direction
	for _, pw := range []uint32{65536, 1024, 1 << 24} {
		o := overrun{delta: 0, place: "continuation", peerWin: pw}
		ovs = append(ovs, o)
	}
	// exactly one window again after the application consumed 1 or 4 frames, the peer using its
	// credit the moment it arrives (explored at the lock granularity of the receiver)
	for _, k := range []int{1, 4} {
		ovs = append(ovs, overrun{delta: 0, place: "continuation", consumed: k, peerWin: 65536})
	}
	// the overrun (or nothing, delta=0) arrives while the application is blocked in SendMsg
	for _, d := range []int{0, 1, 3 * 65536} {
		for _, p := range []string{"envelope", "continuation"} {
			for _, pw := range []uint32{65536, 1024} {
				if d == 0 && p == "envelope" {
					continue
				}
				ovs = append(ovs, overrun{delta: d, place: p, peerWin: pw, sendBlocked: true})
			}
		}
	}
	for _, o := range ovs {
		o := o
		// ---- raw client overruns the real server's receive window on stream 1 -------------
		scs = append(scs, &Scenario{
			Name: "c06/raw-client/" + o.String(), Prop: "C06",
			Desc: "scripted client opens streams 1 (Bidi, handler reads the first message only) and 2 (Bidi bystander) on a real flow-controlled server, fills stream 1's 64 KiB window and overruns it: " + o.String(),
			Opt:  c06Opt(o, bound), Heavy: o.delta == 0 && o.consumed > 0,
			Run: func(w *World) {
				h := grpctunnel.NewTunnelServiceHandler(grpctunnel.TunnelServiceHandlerOptions{})
				h.RegisterService(&TestSvcDesc, &TestServer{W: w, Name: "fwd"})
				n := NewNet(w, "T")
				tunnelpb.RegisterTunnelServiceServer(n, h.Service())
				hops := []HOp{}
				if o.consumed > 0 {
					hops = append(hops, HOp{K: "recv"})
				}
				if o.sendBlocked {
					hops = append(hops, HOp{K: "send", Size: int(o.peerWin) + 100})
				}
				if o.place == "envelope" {
					// complete messages fill the window; the handler reads none of them
				}
				hops = append(hops, HOp{K: "waitctx"}, HOp{K: "recvall"}, HOp{K: "return", Code: codes.Aborted, Msg: "done"})
				w.Scripts["s1"] = &HandlerScript{ID: "s1", Tag: 1, Ops: hops, KeepGoing: true}
				w.Scripts["s2"] = &HandlerScript{ID: "s2", Tag: 2, Ops: []HOp{{K: "recvall"}, {K: "send", Size: 3}, {K: "return"}}}
				w.Invariants = append(w.Invariants, func() string {
					wins, _ := w.ReceiverWindows()
					for i, cw := range wins {
						if cw > protoWindow {
							return fmt.Sprintf("receiver #%d advertises %d (> %d): it buffers more than its window or lost track of it", i, cw, protoWindow)
						}
					}
					return ""
				})
				rc, err := w.OpenRawClient(n, true)
				if err != nil {
					return
				}
				w.Vals["rc"] = rc
				w.GoLow("fault:hangup", func() {
					w.WaitUntil("hangup", func() bool { return true })
					// did the peer give up only after it had said everything and the endpoint had
					// digested it (last resort), or earlier (a deviation)?
					digested := w.Vals["said-all"] != nil && w.RecvLoopsIdle()
					for _, ms := range n.Streams {
						if len(ms.c2s) > 0 {
							digested = false
						}
					}
					w.Vals["hangup-after-digest"] = digested
					w.Log(Event{Actor: "env", Op: "hangup"})
					w.Vals["hangup"] = true
				})
				peer := w.GoPeer("rawclient", func() {
					send := func(id int64, fs []dframe) {
						for _, f := range fs {
							b := f.bytes()
							if f.first {
								_ = rc.Send(fReq(id, f.size, b))
							} else {
								_ = rc.Send(fMoreReq(id, b))
							}
						}
					}
					pre, fill, over := overrunPlan(o, 0)
					_ = rc.Send(fNew(1, "/verif.T/Bidi", 1, o.peerWin, "s1"))
					_ = rc.Send(fNew(2, "/verif.T/Bidi", 1, 65536, "s2"))
					send(1, pre)
					if o.sendBlocked {
						// the handler has used up the window this peer announced and is blocked
						w.WaitUntil("raw:handler-blocked", func() bool {
							c := 0
							for _, m := range rc.Recvd {
								if m.StreamId == 1 {
									c += dataLenS(m)
								}
							}
							return c >= int(o.peerWin) || w.Vals["hangup"] != nil
						})
					}
					if o.consumed > 0 {
						// wait for the credit of the consumed frames
						w.WaitUntil("raw:credit", func() bool {
							c := 0
							for _, m := range rc.Recvd {
								if m.StreamId == 1 {
									c += int(m.GetWindowUpdate())
								}
							}
							return c >= o.consumed*protoChunk || w.Vals["hangup"] != nil
						})
					}
					send(1, fill)
					send(1, over)
					// the bystander runs to completion after the overrun
					m := msgBytes(2, 0, 0, 3)
					_ = rc.Send(fReq(2, uint32(len(m)), m))
					_ = rc.Send(fHalf(2))
					w.Vals["said-all"] = true
					w.WaitUntil("raw:settled", func() bool {
						return (len(rc.CloseOf(1)) > 0 && len(rc.CloseOf(2)) > 0) || w.Vals["hangup"] != nil || rc.Done
					})
					rc.Finish()
				})
				w.Join(peer)
				w.Drain()
			},
			Check: func(w *World, x *Exec) []Violation {
				vs := NoHang(x, "C06")
				if x.Hang {
					return vs
				}
				bad := func(rule, sig, d string) {
					vs = append(vs, Violation{Prop: "C06", Rule: rule, Sig: sig, Detail: o.String() + ": " + d + "\n" + w.Outcome()})
				}
				rc, _ := w.Vals["rc"].(*RawClient)
				if rc == nil {
					return vs
				}
				hung := w.Vals["hangup"] != nil
				cl1, cl2 := rc.CloseOf(1), rc.CloseOf(2)
				_, fin := errFields(rc.Final)
				if fin != "EOF" {
					bad("overrun-fails-only-that-rpc", "overrun:tunnel-killed", fmt.Sprintf("the tunnel ended with %v", rc.Final))
				}
				if o.delta == 0 {
					// exactly one window: must be accepted (the stream stays open until the peer hangs up)
					if len(cl1) == 1 && codes.Code(cl1[0].GetStatus().GetCode()) == codes.ResourceExhausted {
						bad("window-is-what-was-advertised", "overrun:refused-within-window", "a peer that sent exactly the advertised 64 KiB was refused with ResourceExhausted")
					}
					return vs
				}
				if len(cl1) == 0 && (!hung || w.Vals["hangup-after-digest"] == true) {
					bad("overrun-fails-that-rpc", "overrun:no-close", "the overrunning stream was never closed (the peer gave up only when nothing else could happen)")
				}
				// a peer that hung up before the stream was closed ended the whole tunnel: the RPC
				// then ends as any RPC of a dying tunnel does
				hungBeforeClose := false
				if hung {
					hs, cs := -1, 1<<60
					for _, e := range w.EventsOf("env") {
						if e.Op == "hangup" {
							hs = e.Step
						}
					}
					for _, f := range w.Tap.Frames {
						if m, ok := f.Msg.(*tunnelpb.ServerToClient); ok && m.StreamId == 1 && m.GetCloseStream() != nil {
							cs = f.Step
						}
					}
					hungBeforeClose = hs >= 0 && hs < cs
				}
				if len(cl1) == 1 && !hungBeforeClose && codes.Code(cl1[0].GetStatus().GetCode()) != codes.ResourceExhausted {
					bad("overrun-fails-that-rpc", "overrun:wrong-code:"+codes.Code(cl1[0].GetStatus().GetCode()).String(), fmt.Sprintf("the overrunning stream was closed with %s(%s)", codes.Code(cl1[0].GetStatus().GetCode()), cl1[0].GetStatus().GetMessage()))
				}
				if !hung && (len(cl2) != 1 || codes.Code(cl2[0].GetStatus().GetCode()) != codes.OK) {
					bad("bystander-unaffected", "overrun:bystander-failed", fmt.Sprintf("bystander close frames: %v", cl2))
				}
				// the handler must never have received data beyond the window as messages
				return vs
			},
		})
		// ---- raw server overruns the real client's receive window on stream 1 --------------
		scs = append(scs, &Scenario{
			Name: "c06/raw-server/" + o.String(), Prop: "C06",
			Desc: "real flow-controlled client runs Bidi RPC r1 (reads only the first message) and bystander r2 against a scripted server that fills r1's 64 KiB response window and overruns it: " + o.String(),
			Opt:  c06Opt(o, bound), Heavy: o.delta == 0 && o.consumed > 0,
			Run: func(w *World) {
				w.Invariants = append(w.Invariants, func() string {
					wins, _ := w.ReceiverWindows()
					for i, cw := range wins {
						if cw > protoWindow {
							return fmt.Sprintf("receiver #%d advertises %d (> %d)", i, cw, protoWindow)
						}
					}
					return ""
				})
				n := w.NewRawServerNet("T", true, func(c *RawServerConn) error {
					_ = c.Send(fSettings(-1, o.peerWin, 0, 1))
					ids := map[string]int64{}
					got := 0            // request data bytes of r1 seen so far
					cancelled1 := false // the caller gave r1 up: no more credit will come
					for len(ids) < 2 {
						m, err := c.Recv()
						if err != nil {
							return nil
						}
						if m.GetNewStream() != nil {
							ids[scriptOf(m.GetNewStream())] = m.StreamId
						} else if id, ok := ids["r1"]; ok && m.StreamId == id {
							got += dataLenC(m)
							cancelled1 = cancelled1 || m.GetCancel() != nil
						}
					}
					id1, id2 := ids["r1"], ids["r2"]
					send := func(id int64, fs []dframe) {
						for _, f := range fs {
							b := f.bytes()
							if f.first {
								_ = c.Send(fResp(id, f.size, b))
							} else {
								_ = c.Send(fMoreResp(id, b))
							}
						}
					}
					pre, fill, over := overrunPlan(o, 1)
					_ = c.Send(fHdr(id1, nil))
					send(id1, pre)
					if o.sendBlocked {
						// the caller has used up the window this peer announced and is blocked
						for got < int(o.peerWin) {
							m, err := c.Recv()
							if err != nil {
								return nil
							}
							if m.StreamId == id1 {
								got += dataLenC(m)
							}
						}
					}
					if o.consumed > 0 {
						credit := 0
						for credit < o.consumed*protoChunk && !cancelled1 {
							m, err := c.Recv()
							if err != nil {
								return nil
							}
							if m.StreamId == id1 {
								credit += int(m.GetWindowUpdate())
								cancelled1 = cancelled1 || m.GetCancel() != nil
							}
						}
					}
					send(id1, fill)
					send(id1, over)
					b := msgBytes(2, 1, 0, 3)
					_ = c.Send(fHdr(id2, nil))
					_ = c.Send(fResp(id2, uint32(len(b)), b))
					_ = c.Send(fClose(id2, codes.OK, ""))
					c.DrainAll()
					return nil
				})
				ctx, cancel := context.WithCancel(context.Background())
				defer cancel()
				ch, err := grpctunnel.NewChannel(tunnelpb.NewTunnelServiceClient(n)).Start(ctx)
				if err != nil {
					return
				}
				r1 := CallSpec{ID: "r1", Tag: 1, Method: "Bidi", Ops: []COp{{K: "new"}}}
				if o.consumed > 0 {
					r1.Ops = append(r1.Ops, COp{K: "recv"})
				}
				if o.sendBlocked {
					r1.Ops = append(r1.Ops, COp{K: "send", Size: int(o.peerWin) + 100})
				}
				r1.Ops = append(r1.Ops, COp{K: "waitdone"}, COp{K: "recvall"})
				r2 := CallSpec{ID: "r2", Tag: 2, Method: "Bidi", Ops: []COp{{K: "new"}, {K: "recvall"}}}
				if o.delta == 0 {
					// nothing ends r1 by itself: give it up once nothing else can happen
					w.GoLow("fault:giveup", func() {
						w.WaitUntil("giveup", func() bool { return w.cancelOf("r1") != nil })
						w.cancelOf("r1")()
					})
				}
				t1 := w.Go("caller:r1", true, func() { w.RunCall(ch, &r1) })
				w.WaitUntil("r1-started", func() bool {
					for _, e := range w.Events {
						if e.Actor == "caller:r1" && e.Op == "new" {
							return true
						}
					}
					return t1.Done
				})
				t2 := w.Go("caller:r2", true, func() { w.RunCall(ch, &r2) })
				w.Join(t1, t2)
				em, ec := errFields(ch.Err())
				w.Log(Event{Actor: "env", Op: "err", Err: em, Code: ec})
				ch.Close()
				w.WaitUntil("tunnel-end", func() bool { return n.Streams[0].Finished })
				w.Drain()
			},
			Check: func(w *World, x *Exec) []Violation {
				vs := NoHang(x, "C06")
				if x.Hang {
					return vs
				}
				bad := func(rule, sig, d string) {
					vs = append(vs, Violation{Prop: "C06", Rule: rule, Sig: sig, Detail: o.String() + ": " + d + "\n" + w.Outcome()})
				}
				var term *Event
				ce := w.EventsOf("caller:r1")
				for i, e := range ce {
					if e.Op == "recv" && !e.OK() {
						term = &ce[i]
						break
					}
				}
				if o.delta == 0 {
					if term != nil && term.Code == "ResourceExhausted" {
						bad("window-is-what-was-advertised", "overrun:client-refused-within-window", "a peer that sent exactly the advertised 64 KiB was refused with ResourceExhausted")
					}
				} else if term == nil {
					bad("overrun-fails-that-rpc", "overrun:client-no-terminal-result", "r1 never got a terminal result")
				} else if term.Code != "ResourceExhausted" {
					bad("overrun-fails-that-rpc", "overrun:client-wrong-code:"+term.Code, fmt.Sprintf("r1 ended with %s(%s)", term.Code, term.Err))
				}
				ok2 := false
				for _, e := range w.EventsOf("caller:r2") {
					if e.Op == "recv" && e.Code == "EOF" {
						ok2 = true
					}
				}
				if !ok2 {
					bad("bystander-unaffected", "overrun:client-bystander-failed", "the bystander RPC did not complete OK")
				}
				for _, e := range w.EventsOf("env") {
					if e.Op == "err" && !e.OK() {
						bad("overrun-fails-only-that-rpc", "overrun:client-tunnel-killed", fmt.Sprintf("channel Err() = %s(%s)", e.Code, e.Err))
					}
				}
				return vs
			},
		})
	}
	// the invariant is a property of real senders and receivers under every workload: the
	// flow-control workloads of C05 and the multi-RPC workloads of C01 are re-run here with
	// only the window and protocol monitors as oracles
	for _, sc := range c05Scenarios(tier) {
		if !strings.HasPrefix(sc.Name, "c05/core/sender") {
			continue
		}
		c := *sc
		orig := sc.Check
		c.Name, c.Prop = "c06/union/"+sc.Name, "C06"
		c.Check = func(w *World, x *Exec) []Violation {
			var vs []Violation
			for _, v := range orig(w, x) {
				if strings.Contains(v.Sig, "sent-more-than-credit") || strings.Contains(v.Sig, "sent-without-credit") || strings.Contains(v.Sig, "chunk-too-large") {
					v.Prop = "C06"
					vs = append(vs, v)
				}
			}
			return vs
		}
		scs = append(scs, &c)
	}
	scs = append(scs, monitorOnly("c06/union/", "C06", c05TunnelScenarios(tier))...)
	scs = append(scs, monitorOnly("c06/union/", "C06", c01M2(tier))...)
	return scs
}

// c06Opt: the exact-window controls after consumption run at the lock granularity of the
// receiver with one more deviation; everything else at frame granularity.
func c06Opt(o overrun, bound int) Options {
	if o.delta == 0 && o.consumed > 0 {
		return Options{Level: "focus", Focus: []string{"dequeue", "accept", "RecvMsg", "readMsg", "readMsgLocked"}, Bound: bound + 1}
	}
	return Options{Level: "io", Bound: bound}
}

// monitorOnly re-labels scenarios of another property for a run in which only the global
// monitors (and hang detection) judge the executions.
func monitorOnly(prefix, prop string, in []*Scenario) []*Scenario {
	var out []*Scenario
	for _, sc := range in {
		c := *sc
		c.Name = prefix + sc.Name
		c.Prop = prop
		// hangs are judged by the check that owns the scenario; here only the monitors speak
		c.Check = func(w *World, x *Exec) []Violation { return nil }
		out = append(out, &c)
	}
	return out
}

func init() {
	register(&PropDef{ID: "C06", Level: "model_checking",
		Rule:      "window invariants are monitored on every frame of every execution (sender: un-credited data <= advertised window, chunk <= 16 KiB; receiver: credit granted <= data the application can have consumed; advertised receive window never above 64 KiB at any quiescent point); dedicated scenarios: a scripted raw client (resp. raw server) overruns the window of one of two streams by 1, 16384, 196608 bytes, in a message envelope, a continuation frame or a new message, after the application consumed 0, 1 or 4 frames - all schedules with <= 1 (quick) / 2 (thorough) deviations; oracle: the overrunning RPC ends ResourceExhausted at the receiving application, the tunnel and the bystander RPC are unaffected",
		Globals:   []func(*Scenario, *World, *Exec) []Violation{WinMonitor, ProtoMonitor},
		Scenarios: c06Scenarios})
}
