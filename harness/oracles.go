package harness

import (
	"fmt"
	"strings"
)

// GenericOracle applies to every execution of every check: a panic in any thread of the
// system under test (or the harness) is a crash of the process.
func GenericOracle(sc *Scenario, w *World, x *Exec) []Violation {
	var vs []Violation
	for _, p := range x.Panics {
		first := strings.SplitN(p, "\n", 2)[0]
		vs = append(vs, Violation{Rule: "no-panic", Sig: "panic:" + panicSite(p), Detail: first + "\n" + p})
	}
	if x.Bubble != "" && !x.Abandoned && !x.Hang && len(x.Leaked) == 0 && len(x.Panics) == 0 {
		// the bubble could not be drained although every controlled thread finished:
		// an uncontrolled goroutine is left behind
		vs = append(vs, Violation{Prop: "C14", Rule: "no-goroutine-left", Sig: "bubble-not-drained", Detail: x.Bubble})
	}
	if len(w.FrameMutations) > 0 {
		vs = append(vs, Violation{Prop: "C01", Rule: "frames-immutable-after-send", Sig: "msg:frame-modified-after-send",
			Detail: "grpc lets a transport use a message lazily, so it must not be modified after Send/SendMsg returned: " + strings.Join(w.FrameMutations, "; ")})
	}
	if len(w.ContractViolations) > 0 {
		vs = append(vs, Violation{Prop: "C15", Rule: "carrier-stream-contract", Sig: "conc:concurrent-calls-on-carrier-stream",
			Detail: "grpc allows one sender and one receiver per stream: " + strings.Join(w.ContractViolations, "; ")})
	}
	limit := sc.Opt.AllocLimit
	if limit == 0 {
		limit = DefaultAllocLimit
	}
	if x.Alloc > limit {
		prop := ""
		if sc.Prop != "C06" {
			prop = "C09" // "... or make it buffer more than one flow-control window of data per open stream"
		}
		vs = append(vs, Violation{Prop: prop, Rule: "bounded-memory", Sig: "alloc:execution-allocated-more-than-limit",
			Detail: fmt.Sprintf("this one execution allocated %d bytes (limit %d): memory use is not bounded by the data actually received", x.Alloc, limit)})
	}
	for _, m := range w.InvFail {
		vs = append(vs, Violation{Rule: "invariant", Sig: "inv:" + strings.SplitN(m, ": ", 2)[1], Detail: m})
		break
	}
	return vs
}

// panicSite extracts the first grpctunnel source location from a panic stack.
func panicSite(p string) string {
	for _, l := range strings.Split(p, "\n") {
		l = strings.TrimSpace(l)
		if strings.HasPrefix(l, "/repo/") && !strings.HasPrefix(l, "/repo/verifrt/") {
			l = strings.TrimPrefix(l, "/repo/")
			if i := strings.IndexByte(l, ' '); i > 0 {
				l = l[:i]
			}
			return l
		}
	}
	return "unknown"
}

// NoHang reports a hang (an application actor never finished although the explorer ran
// out of enabled threads and clock ticks).
func NoHang(x *Exec, prop string) []Violation {
	if !x.Hang {
		return nil
	}
	return []Violation{{Prop: prop, Rule: "no-hang", Sig: "hang:" + hangSig(x.HangInfo), Detail: strings.Join(x.HangInfo, "; ")}}
}

// hangSig builds a stable signature for a set of stuck threads: the functions of the code
// under test in which threads are stuck (sorted, unique, without file and line) and the
// harness wait points of the stuck actors.
func hangSig(info []string) string {
	sut, app := map[string]bool{}, map[string]bool{}
	for _, h := range info {
		f := strings.Fields(h)
		if len(f) != 2 {
			continue
		}
		where := f[1] // kind@site
		i := strings.IndexByte(where, '@')
		if i < 0 {
			continue
		}
		kind, site := where[:i], where[i+1:]
		switch {
		case strings.Contains(site, ".go:"):
			sut[site[strings.LastIndexByte(site, ':')+1:]] = true
		case kind == "carrier":
			// carrier operation of a receive loop: c.recv:T0 -> c.recv
			if j := strings.IndexByte(site, ':'); j > 0 {
				site = site[:j]
			}
			sut[site] = true
		default:
			app[stripNums(site)] = true
		}
	}
	return "sut=" + joinSorted(sut) + ";app=" + joinSorted(app)
}

func joinSorted(m map[string]bool) string {
	var ks []string
	for k := range m {
		ks = append(ks, k)
	}
	sortStrings(ks)
	return strings.Join(ks, ",")
}

func stripNums(s string) string {
	var sb strings.Builder
	for _, r := range s {
		if r >= '0' && r <= '9' {
			continue
		}
		sb.WriteRune(r)
	}
	return sb.String()
}

// NoLeak reports threads of the system under test that are still alive after the
// scenario's tear-down, and table entries that outlived their RPCs or tunnels.
func NoLeak(w *World, x *Exec, prop string) []Violation {
	var vs []Violation
	if x.Hang {
		return nil
	}
	if len(x.Leaked) > 0 {
		vs = append(vs, Violation{Prop: prop, Rule: "no-goroutine-left", Sig: "leak:" + hangSig(x.Leaked), Detail: strings.Join(x.Leaked, "; ")})
	}
	tb := w.Dump()
	if len(tb.Missing) > 0 {
		return append(vs, Violation{Prop: prop, Rule: "harness", Sig: "dump-missing-field", Detail: fmt.Sprint(tb.Missing)})
	}
	for i, n := range tb.ClientStreams {
		if n != 0 {
			vs = append(vs, Violation{Prop: prop, Rule: "tables-empty-at-end", Sig: "client-stream-table", Detail: fmt.Sprintf("tunnelChannel #%d still has %d stream entries", i, n)})
		}
	}
	for i, n := range tb.ServerStreams {
		if n != 0 {
			vs = append(vs, Violation{Prop: prop, Rule: "tables-empty-at-end", Sig: "server-stream-table", Detail: fmt.Sprintf("tunnelServer #%d still has %d stream entries", i, n)})
		}
	}
	if tb.RevAll != 0 || tb.RevByKey != 0 {
		vs = append(vs, Violation{Prop: prop, Rule: "registry-empty-at-end", Sig: "reverse-registry", Detail: fmt.Sprintf("all=%d bykey=%d", tb.RevAll, tb.RevByKey)})
	}
	return vs
}
