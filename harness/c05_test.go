package harness

import (
	"bytes"
	"context"
	"fmt"
	"reflect"
	"strings"

	"github.com/jhump/grpctunnel"
	"github.com/jhump/grpctunnel/verifrt"
	"google.golang.org/grpc/codes"
)

// ---- core: the flow-control sender / receiver stepped in isolation ----------------------

type coreSenderCfg struct {
	size    int
	window  int
	pieces  [][]int // per updater thread: credit pieces
	cancel  bool
	unbound bool
}

func (c coreSenderCfg) String() string {
	return fmt.Sprintf("size=%d win=%d credit=%v cancel=%v", c.size, c.window, c.pieces, c.cancel)
}

func coreSenderScenario(c coreSenderCfg, bound int) *Scenario {
	type call struct {
		n     int
		total uint32
		first bool
	}
	return &Scenario{
		Name: "c05/core/sender/" + c.String(), Prop: "C05",
		Desc: "flow-control sender in isolation: one send of " + c.String() + " against concurrent window updates (and cancellation); every lock, atomic and channel operation is a scheduling point",
		Opt:  Options{Level: "sync", Bound: bound, Unbounded: c.unbound, MaxSteps: 4000},
		Run: func(w *World) {
			ctx, cancel := context.WithCancel(context.Background())
			defer cancel()
			data := make([]byte, c.size)
			for i := range data {
				data[i] = byte(i*7 + 3)
			}
			var calls []call
			var sent []byte
			snd := grpctunnel.VerifNewSender(ctx, uint32(c.window), func(b []byte, total uint32, first bool) error {
				calls = append(calls, call{len(b), total, first})
				sent = append(sent, b...)
				return nil
			})
			w.Vals["calls"], w.Vals["sent"], w.Vals["data"] = &calls, &sent, data
			st := w.Go("sender", true, func() {
				err := snd.Send(data)
				em, ec := errFields(err)
				w.Log(Event{Actor: "sender", Op: "send", Err: em, Code: ec})
			})
			ths := []*verifrt.Thread{st}
			for i, ps := range c.pieces {
				ps := ps
				ths = append(ths, w.Go(fmt.Sprintf("updater%d", i), true, func() {
					for _, p := range ps {
						snd.UpdateWindow(uint32(p))
						w.Log(Event{Actor: "updater", Op: "credit", Idx: p})
					}
				}))
			}
			total := c.window
			for _, ps := range c.pieces {
				for _, p := range ps {
					total += p
				}
			}
			if c.cancel && total < c.size {
				// not enough credit: the canceller is a last resort (fires when nothing else can run)
				w.GoLow("fault:cancel", func() {
					w.WaitUntil("cancel", func() bool { return true })
					w.Log(Event{Actor: "canceller", Op: "cancel"})
					cancel()
				})
			} else if c.cancel {
				ths = append(ths, w.Go("canceller", true, func() {
					w.Log(Event{Actor: "canceller", Op: "cancel"})
					cancel()
				}))
			}
			w.Join(ths...)
		},
		Check: func(w *World, x *Exec) []Violation {
			var vs []Violation
			bad := func(rule, sig, d string) {
				vs = append(vs, Violation{Prop: "C05", Rule: rule, Sig: sig, Detail: c.String() + ": " + d})
			}
			if x.Hang {
				return []Violation{{Prop: "C05", Rule: "sender-never-stranded", Sig: "core:sender-stranded",
					Detail: c.String() + ": the sender is blocked although enough credit was delivered: " + strings.Join(x.HangInfo, "; ")}}
			}
			calls := *(w.Vals["calls"].(*[]call))
			sent := *(w.Vals["sent"].(*[]byte))
			data := w.Vals["data"].([]byte)
			var res *Event
			for i, e := range w.Events {
				if e.Actor == "sender" {
					res = &w.Events[i]
				}
			}
			if res == nil {
				return vs
			}
			if !bytes.HasPrefix(data, sent) {
				bad("bytes-in-order", "core:sender-bytes-not-a-prefix", fmt.Sprintf("sendFunc received %d bytes that are not a prefix of the message", len(sent)))
			}
			for i, cl := range calls {
				if cl.n > protoChunk {
					bad("chunk-at-most-16k", "core:chunk-too-large", fmt.Sprintf("chunk %d has %d bytes", i, cl.n))
				}
				if cl.first != (i == 0) || int(cl.total) != c.size {
					bad("envelope-then-continuations", "core:bad-first-flag-or-size", fmt.Sprintf("call %d: first=%v total=%d", i, cl.first, cl.total))
				}
			}
			total := c.window
			for _, ps := range c.pieces {
				for _, p := range ps {
					total += p
				}
			}
			if len(sent) > total {
				bad("window-respected", "core:sent-more-than-credit", fmt.Sprintf("%d bytes handed to sendFunc with only %d credit ever available", len(sent), total))
			}
			switch {
			case res.OK() && total < c.size:
				bad("window-respected", "core:sent-without-credit", fmt.Sprintf("send returned nil although only %d credit was ever available for %d bytes", total, c.size))
			case res.OK():
				if len(sent) != c.size {
					bad("send-nil-iff-all-sent", "core:nil-but-incomplete", fmt.Sprintf("send returned nil after %d of %d bytes", len(sent), c.size))
				}
				// credit conservation: window == initial + credit - size
				if wins, missing := w.SenderWindows(); len(missing) == 0 && len(wins) == 1 && int(wins[0]) != total-c.size {
					bad("credit-conserved", "core:window-not-conserved", fmt.Sprintf("window is %d after the send, expected %d", wins[0], total-c.size))
				}
			case c.cancel && (res.Code == "ctx.Canceled"):
			default:
				bad("send-nil-iff-all-sent", "core:unexpected-error:"+res.Code, res.Err)
			}
			return vs
		},
	}
}

type coreReceiverCfg struct {
	frames  []int // sizes accepted in order
	window  int
	closer  string // "" | close | cancel
	nofc    bool
	unbound bool
}

func (c coreReceiverCfg) String() string {
	return fmt.Sprintf("frames=%v win=%d closer=%q nofc=%v", c.frames, c.window, c.closer, c.nofc)
}

func coreReceiverScenario(c coreReceiverCfg, bound int) *Scenario {
	return &Scenario{
		Name: "c05/core/receiver/" + c.String(), Prop: "C05",
		Desc: "flow-control receiver in isolation: " + c.String() + "; one accepting thread, one dequeuing thread, optionally a close/cancel thread; every lock, condition and channel operation is a scheduling point",
		Opt:  Options{Level: "sync", Bound: bound, Unbounded: c.unbound, MaxSteps: 4000},
		Run: func(w *World) {
			ctx, cancel := context.WithCancel(context.Background())
			defer cancel()
			var credits []int
			var rc grpctunnel.VerifReceiver
			if c.nofc {
				rc = grpctunnel.VerifNewReceiverNoFC(ctx)
			} else {
				rc = grpctunnel.VerifNewReceiver(uint32(c.window), func(n uint32) { credits = append(credits, int(n)) })
			}
			w.Vals["credits"] = &credits
			acc := w.Go("acceptor", true, func() {
				for i, n := range c.frames {
					b := bytes.Repeat([]byte{byte(i + 1)}, n)
					err := rc.Accept(b)
					em, ec := errFields(err)
					w.Log(Event{Actor: "acceptor", Op: "accept", Idx: i, Err: em, Code: ec})
				}
				if c.closer == "" {
					// the acceptor ends the stream itself (half-close after the last frame)
					rc.Close()
					w.Log(Event{Actor: "acceptor", Op: "close"})
				}
			})
			deq := w.Go("dequeuer", true, func() {
				for i := 0; ; i++ {
					b, ok := rc.Dequeue()
					if !ok {
						w.Log(Event{Actor: "dequeuer", Op: "end", Idx: i})
						return
					}
					id := 0
					if len(b) > 0 {
						id = int(b[0])
					}
					w.Log(Event{Actor: "dequeuer", Op: "item", Idx: id, Detail: fmt.Sprint(len(b))})
				}
			})
			ths := []*verifrt.Thread{acc, deq}
			if c.closer != "" {
				ths = append(ths, w.Go("closer", true, func() {
					if c.closer == "close" {
						rc.Close()
					} else {
						rc.Cancel()
					}
					w.Log(Event{Actor: "closer", Op: c.closer})
				}))
			}
			w.Join(ths...)
		},
		Check: func(w *World, x *Exec) []Violation {
			var vs []Violation
			bad := func(rule, sig, d string) {
				vs = append(vs, Violation{Prop: "C05", Rule: rule, Sig: sig, Detail: c.String() + ": " + d + " | " + w.Outcome()})
			}
			if x.Hang {
				return []Violation{{Prop: "C05", Rule: "receiver-never-strands-reader", Sig: "core:receiver-hang",
					Detail: c.String() + ": " + strings.Join(x.HangInfo, "; ")}}
			}
			// accepted (without error, before any close took effect) in order; dequeued is a prefix-subsequence
			var accepted, got []int
			gotBytes := 0
			for _, e := range w.Events {
				switch {
				case e.Actor == "acceptor" && e.Op == "accept" && e.OK():
					accepted = append(accepted, e.Idx+1)
				case e.Actor == "dequeuer" && e.Op == "item":
					got = append(got, e.Idx)
					var n int
					fmt.Sscan(e.Detail, &n)
					gotBytes += n
				}
			}
			for i, g := range got {
				if i >= len(accepted) || accepted[i] != g {
					bad("fifo", "core:receiver-order", fmt.Sprintf("dequeued %v, accepted %v", got, accepted))
					break
				}
			}
			if c.closer == "" && len(got) != len(accepted) {
				bad("nothing-lost", "core:receiver-lost-item", fmt.Sprintf("dequeued %v, accepted %v, and the stream was closed only after the last accept", got, accepted))
			}
			if !c.nofc {
				sum := 0
				for _, n := range *(w.Vals["credits"].(*[]int)) {
					sum += n
				}
				if sum != gotBytes {
					bad("credit-equals-consumed", "core:credit-not-equal-consumed", fmt.Sprintf("credit returned %d, bytes dequeued %d", sum, gotBytes))
				}
				// acceptance beyond the window must be refused
				inq := 0
				_ = inq
			}
			return vs
		},
	}
}

// ---- tunnel level ---------------------------------------------------------------------------

// streamWindows reads, for every stream the two endpoints both still know, the sender and
// receiver windows of both directions.
type streamWin struct {
	id                                   int64
	cSend, cRecv, sSend, sRecv           int64
	clientDone, serverClosed, halfClosed bool
}

func readWin(v reflect.Value) (int64, bool) {
	// v: interface holding *defaultSender / *defaultReceiver (or the no-flow-control kinds)
	for v.Kind() == reflect.Interface || v.Kind() == reflect.Pointer {
		if v.IsNil() {
			return 0, false
		}
		v = v.Elem()
	}
	f := v.FieldByName("currentWindow")
	if !f.IsValid() {
		return 0, false
	}
	for f.Kind() == reflect.Struct {
		in := f.FieldByName("v")
		if !in.IsValid() {
			return 0, false
		}
		f = in
	}
	if f.Kind() != reflect.Uint32 {
		return 0, false
	}
	return int64(f.Uint()), true
}

func isNilPtrField(v reflect.Value, name string) bool {
	f := v.FieldByName(name)
	for f.IsValid() && f.Kind() == reflect.Struct {
		in := f.FieldByName("v")
		if !in.IsValid() {
			break
		}
		f = in
	}
	if !f.IsValid() {
		return true
	}
	switch f.Kind() {
	case reflect.Pointer, reflect.UnsafePointer:
		return f.IsNil() || f.Pointer() == 0
	}
	return true
}

func (w *World) streamWins() []streamWin {
	cl := map[int64]reflect.Value{}
	sv := map[int64]reflect.Value{}
	for _, o := range w.S.Tracked() {
		v := reflect.ValueOf(o)
		for v.Kind() == reflect.Pointer {
			v = v.Elem()
		}
		switch typeName(o) {
		case "tunnelClientStream":
			cl[v.FieldByName("streamID").Int()] = v
		case "tunnelServerStream":
			sv[v.FieldByName("streamID").Int()] = v
		}
	}
	var out []streamWin
	for id, c := range cl {
		s, ok := sv[id]
		if !ok {
			continue
		}
		sw := streamWin{id: id}
		var ok1, ok2, ok3, ok4 bool
		sw.cSend, ok1 = readWin(c.FieldByName("sender"))
		sw.cRecv, ok2 = readWin(c.FieldByName("receiver"))
		sw.sSend, ok3 = readWin(s.FieldByName("sender"))
		sw.sRecv, ok4 = readWin(s.FieldByName("receiver"))
		if !(ok1 && ok2 && ok3 && ok4) {
			continue
		}
		sw.clientDone = !isNilPtrField(c, "done")
		sw.halfClosed = !isNilPtrField(s, "halfClosed")
		sw.serverClosed = s.FieldByName("closed").Bool()
		out = append(out, sw)
	}
	return out
}

// flowInvariant: whenever the tunnel is idle (nothing in flight on the carrier and no
// thread of the code under test able to run) credit is conserved: each sender's window
// equals the window its peer's receiver currently advertises. Lost credit, duplicated
// credit or a lost wake-up all break it (or hang).
func flowInvariant(w *World) func() string {
	return func() string {
		for _, n := range w.Nets {
			for _, ms := range n.Streams {
				if len(ms.c2s) > 0 || len(ms.s2c) > 0 {
					return ""
				}
			}
		}
		enabled, _, _ := w.S.Snapshot()
		for _, th := range enabled {
			// any thread that can run and is not at an application-level point is in the
			// middle of a library or carrier operation: not idle
			switch th.Kind {
			case "app", "wait", "sleep":
			default:
				return ""
			}
		}
		for _, sw := range w.streamWins() {
			if sw.clientDone || sw.serverClosed {
				continue
			}
			if !sw.halfClosed && sw.cSend != sw.sRecv {
				return fmt.Sprintf("stream %d request direction: sender window %d but receiver advertises %d while the tunnel is idle", sw.id, sw.cSend, sw.sRecv)
			}
			if sw.sSend != sw.cRecv {
				return fmt.Sprintf("stream %d response direction: sender window %d but receiver advertises %d while the tunnel is idle", sw.id, sw.sSend, sw.cRecv)
			}
		}
		return ""
	}
}

func c05Scenarios(tier string) []*Scenario {
	var scs []*Scenario
	thorough := tier == "thorough"
	// core sender: all interleavings
	sizes := []int{1, 16384, 16385}
	wins := []int{0, 1, 16384}
	if thorough {
		sizes = append(sizes, 32769, 65537)
		wins = append(wins, 65536)
	}
	for _, size := range sizes {
		for _, win := range wins {
			miss := size - win
			var plans [][][]int
			if miss <= 0 {
				plans = [][][]int{{}, {{5}}}
			} else {
				plans = [][][]int{{{miss}}, {{miss + 7}}, {{1, miss - 1}}, {{1}, {miss - 1}}, {{miss / 2}, {miss - miss/2}}}
				if miss == 1 {
					plans = [][][]int{{{1}}, {{1}, {1}}, {{1, 1}}}
				}
			}
			for _, pl := range plans {
				for _, cancel := range []bool{false, true} {
					ok := true
					for _, ps := range pl {
						for _, p := range ps {
							if p <= 0 {
								ok = false
							}
						}
					}
					if !ok {
						continue
					}
					c := coreSenderCfg{size: size, window: win, pieces: pl, cancel: cancel}
					nth := 1 + len(pl)
					if cancel {
						nth++
					}
					chunks := (size + protoChunk - 1) / protoChunk
					c.unbound = nth <= 2 && chunks <= 2 || (nth <= 3 && chunks <= 1)
					b := 3
					if thorough {
						b = 4
					}
					scs = append(scs, coreSenderScenario(c, b))
				}
			}
		}
	}
	// core sender with LESS credit than the message needs: the sender must stop exactly at the
	// credit it was given (and is then released by cancellation)
	for _, c := range []coreSenderCfg{
		{size: 32769, window: 16384, pieces: [][]int{{1}}, cancel: true},
		{size: 32769, window: 1, pieces: [][]int{{16384}}, cancel: true},
		{size: 16385, window: 16384, pieces: [][]int{}, cancel: true},
		{size: 49153, window: 16384, pieces: [][]int{{16384}, {1}}, cancel: true},
	} {
		c.unbound = false
		b := 3
		if thorough {
			b = 4
		}
		sc := coreSenderScenario(c, b)
		sc.Name = strings.Replace(sc.Name, "c05/core/sender/", "c05/core/sender-short-credit/", 1)
		scs = append(scs, sc)
	}
	// core receiver
	for _, fr := range [][]int{{10}, {10, 20}, {10, 20, 30}, {16384, 16384, 16384, 16384, 1}} {
		for _, closer := range []string{"", "close", "cancel"} {
			for _, nofc := range []bool{false, true} {
				c := coreReceiverCfg{frames: fr, window: 65536, closer: closer, nofc: nofc}
				c.unbound = len(fr) <= 2
				b := 3
				if thorough {
					b = 4
				}
				scs = append(scs, coreReceiverScenario(c, b))
			}
		}
	}
	scs = append(scs, c05TunnelScenarios(tier)...)
	return scs
}

// c05TunnelScenarios: 1-3 streams carrying several windows of data, reader pacing owned by
// the search.
func c05TunnelScenarios(tier string) []*Scenario {
	var scs []*Scenario
	thorough := tier == "thorough"
	type tl struct {
		name string
		wls  func() []Workload
	}
	big := func(n int) []int {
		var s []int
		for i := 0; i < n; i++ {
			s = append(s, 65537)
		}
		return s
	}
	tls := []tl{
		{"CSx3w", func() []Workload { return []Workload{StdWorkload("r1", 1, "ClientStream", big(3), []int{3})} }},
		{"SSx3w", func() []Workload { return []Workload{StdWorkload("r1", 1, "ServerStream", []int{3}, big(3))} }},
		{"Bx2w", func() []Workload { return []Workload{StdWorkload("r1", 1, "Bidi", big(2), big(2))} }},
		{"CS+SS", func() []Workload {
			return []Workload{StdWorkload("r1", 1, "ClientStream", big(2), []int{3}), StdWorkload("r2", 2, "ServerStream", []int{3}, big(2))}
		}},
		{"B+B+CS", func() []Workload {
			return []Workload{StdWorkload("r1", 1, "Bidi", []int{131073}, []int{65537}), StdWorkload("r2", 2, "Bidi", []int{65537}, []int{131073}), StdWorkload("r3", 3, "ClientStream", big(2), []int{3})}
		}},
	}
	for _, cfg := range []TunCfg{{}, {Cap: 1}, {Reverse: true}} {
		for _, side := range []string{"handler", "caller", "caller-ended-by-peer"} {
			cfg, side := cfg, side
			b := 1
			if thorough {
				b = 2
			}
			scs = append(scs, &Scenario{
				Name: fmt.Sprintf("c05/tunnel/%s/blocked-%s-cancelled", cfg, side), Prop: "C05",
				Desc: fmt.Sprintf("a %s is blocked in a send on an exhausted window (its peer reads nothing) on a %s tunnel; the RPC is cancelled as a last resort (or earlier: deviation); the blocked send must return and a second RPC carrying two windows of data must complete; <= %d deviations", side, cfg, b),
				Opt:  Options{Level: "io", Bound: b},
				Run: func(w *World) {
					w.Invariants = append(w.Invariants, flowInvariant(w))
					t := w.OpenTunnel(cfg)
					if t.StartErr != nil {
						return
					}
					var d Workload
					if side == "handler" {
						d = StdWorkload("d", 9, "ServerStream", []int{3}, nil)
						d.Call.Ops = []COp{{K: "new"}, {K: "send", Size: 3}, {K: "closesend"}, {K: "waitdone"}}
						d.Handler.Ops = []HOp{{K: "recv"}, {K: "send", Size: 100000}, {K: "return"}}
					} else {
						d = StdWorkload("d", 9, "ClientStream", nil, nil)
						d.Call.Ops = []COp{{K: "new"}, {K: "send", Size: 100000}, {K: "recvall"}}
						d.Handler.Ops = []HOp{{K: "waitctx"}, {K: "return", Code: codes.Aborted, Msg: "never read"}}
					}
					if side == "caller-ended-by-peer" {
						// the handler ends the RPC without reading while the caller is parked on the
						// window; the caller's own context is never cancelled, so only the end of the
						// stream can release the blocked send
						d.Call.KeepCtx = true
						d.Handler.Ops = []HOp{{K: "return", Code: codes.Aborted, Msg: "never read"}}
					}
					d.Handler.KeepGoing = true
					ths := w.StartCallers(t, []Workload{d})
					if side != "caller-ended-by-peer" {
						w.StartFault(t, "cancel:d")
					}
					w.Join(ths...)
					w.Join(w.StartCallers(t, []Workload{StdWorkload("r2", 2, "Bidi", []int{65537}, []int{65537})})...)
					t.Close()
				},
				Check: func(w *World, x *Exec) []Violation {
					vs := NoHang(x, "C05")
					if x.Hang {
						vs[0].Sig = "flow:blocked-sender-cancelled:" + vs[0].Sig
						return vs
					}
					vs = append(vs, msgOracle(w, "C05", []string{"r2"})...)
					return append(vs, completeOK(w, "C05", StdWorkload("r2", 2, "Bidi", []int{65537}, []int{65537}))...)
				},
			})
		}
	}
	for _, cfg := range []TunCfg{{}, {Cap: 1}, {Cap: 2}, {Reverse: true}, {Reverse: true, Cap: 1}} {
		for _, t := range tls {
			cfg, t := cfg, t
			bound := 1
			if thorough || (cfg.Cap == 1 && (t.name == "CS+SS" || t.name == "Bx2w")) {
				// back-pressure in both directions at once needs two deviations to set up
				bound = 2
			}
			wls := t.wls()
			var ids []string
			for _, wl := range wls {
				ids = append(ids, wl.Call.ID)
			}
			scs = append(scs, &Scenario{
				Name: fmt.Sprintf("c05/tunnel/%s/%s", cfg, t.name), Prop: "C05", Heavy: bound >= 2,
				Desc: fmt.Sprintf("flow-controlled tunnel %s carrying %s (several windows of data per stream); every application read, frame delivery and window update is a scheduling point; <= %d deviations; credit conservation is checked at every idle quiescent point", cfg, t.name, bound),
				Opt:  Options{Level: "io", Bound: bound},
				Run: func(w *World) {
					w.Invariants = append(w.Invariants, flowInvariant(w))
					RunWorkloads(w, cfg, wls)
				},
				Check: func(w *World, x *Exec) []Violation {
					vs := NoHang(x, "C05")
					if x.Hang {
						vs[0].Sig = "flow:" + vs[0].Sig
						return vs
					}
					vs = append(vs, msgOracle(w, "C05", ids)...)
					for _, wl := range wls {
						vs = append(vs, completeOK(w, "C05", wl)...)
					}
					return vs
				},
			})
		}
	}
	return scs
}

func init() {
	register(&PropDef{ID: "C05", Level: "model_checking",
		Rule:      "(core) the real defaultSender/defaultReceiver driven through verif-only exported constructors: every interleaving (unbounded DFS for the small configurations, D<=3/4 for the larger ones) of a send with 0-2 updater threads and an optional canceller, resp. of accept / dequeue / close|cancel, at the granularity of every atomic, lock, condition and channel operation; oracle: never stranded (no hang when enough credit was delivered), bytes in order, chunks <= 16 KiB, window conserved, credit == consumed, FIFO; (tunnel) 1-3 streams carrying 2-3 windows each over carriers of capacity 1, 2, unbounded, forward and reverse, D<=1 (quick) / 2 (thorough) at frame/application granularity with the credit-conservation invariant evaluated at every idle quiescent point and completion required",
		Globals:   []func(*Scenario, *World, *Exec) []Violation{WinMonitor},
		Scenarios: c05Scenarios})
}
