package harness

import (
	"context"
	"fmt"
	"sort"
	"strings"

	"github.com/jhump/grpctunnel"
	"google.golang.org/grpc/metadata"
)

// c12: the reverse-tunnel registry.

type regWorld struct {
	w    *World
	h    *grpctunnel.TunnelServiceHandler
	net  *Net
	tuns map[string]*Tun // by label
	keys map[string]string
}

func newRegWorld(w *World) *regWorld {
	r := &regWorld{w: w, tuns: map[string]*Tun{}, keys: map[string]string{}}
	ho := grpctunnel.TunnelServiceHandlerOptions{
		AffinityKey: func(ch grpctunnel.TunnelChannel) any {
			md, _ := metadata.FromIncomingContext(ch.Context())
			if v := md.Get("key"); len(v) > 0 {
				return v[0]
			}
			return nil
		},
	}
	w.Vals["reg"] = r
	r.hopts(ho)
	return r
}

func (r *regWorld) hopts(ho grpctunnel.TunnelServiceHandlerOptions) {
	// the first OpenTunnel call creates handler and net with these options
	r.w.Vals["reg:hopts"] = &ho
}

// open opens reverse tunnel `label` with affinity key (""=nil key). Blocks until registered.
func (r *regWorld) open(label, key string) *Tun {
	w := r.w
	cfg := TunCfg{Reverse: true, Label: label, SrvName: "rev:" + label}
	if key != "" {
		cfg.OpenMD = metadata.Pairs("key", key)
	}
	if r.h != nil {
		cfg.Handler, cfg.Net = r.h, r.net
	} else {
		cfg.HOpts = w.Vals["reg:hopts"].(*grpctunnel.TunnelServiceHandlerOptions)
	}
	w.Log(Event{Actor: "env", Op: "open-begin", Detail: label})
	t := w.OpenTunnel(cfg)
	if r.h == nil {
		r.h, r.net = t.Handler, t.Net
	}
	r.tuns[label], r.keys[label] = t, key
	w.Log(Event{Actor: "env", Op: "open-end", Detail: label})
	return t
}

// closeTun ends tunnel label: how = handler | serving | break
func (r *regWorld) closeTun(label, how string) {
	w := r.w
	t := r.tuns[label]
	w.Point("env:close-tunnel")
	w.Log(Event{Actor: "env", Op: "close-begin", Detail: label})
	switch how {
	case "handler":
		t.Ch.Close()
	case "serving":
		t.Cancel()
	case "stop":
		t.RevSrv.Stop()
	case "break":
		for _, ms := range r.net.Streams {
			if ms.Name == fmt.Sprintf("%s%d", r.net.Label, r.indexOf(label)) {
				ms.Break()
			}
		}
	}
	w.WaitUntil("closed", func() bool {
		for _, e := range w.Events {
			if e.Actor == "env" && e.Op == "rev-close" && e.Detail == "rev:"+label {
				return true
			}
		}
		return false
	})
	w.Log(Event{Actor: "env", Op: "close-end", Detail: label})
}

func (r *regWorld) indexOf(label string) int {
	// carrier streams are created in open order
	var labels []string
	for _, e := range r.w.Events {
		if e.Actor == "env" && e.Op == "open-begin" {
			labels = append(labels, e.Detail)
		}
	}
	for i, l := range labels {
		if l == label {
			return i
		}
	}
	return -1
}

func (r *regWorld) conn(key string) grpctunnel.ReverseClientConnInterface {
	if key == "*" {
		return r.h.AsChannel()
	}
	if key == "" {
		return r.h.KeyAsChannel(nil)
	}
	return r.h.KeyAsChannel(key)
}

// views logs the three registry views at a quiescent moment.
func (r *regWorld) views(tag string) {
	w := r.w
	w.Point("env:views")
	var all []string
	for _, ch := range r.h.AllReverseTunnels() {
		all = append(all, w.ChanName(ch))
	}
	sort.Strings(all)
	d := "all=" + strings.Join(all, ",")
	for _, k := range []string{"*", "", "a", "b"} {
		d += fmt.Sprintf(" ready[%s]=%v", k, r.conn(k).Ready())
	}
	w.Log(Event{Actor: "views", Op: tag, Detail: d})
}

// route issues one unary RPC through the pooled channel for key and logs who served it.
func (r *regWorld) route(id string, tag byte, key string) {
	w := r.w
	wl := StdWorkload(id, tag, "Unary", []int{3}, []int{3})
	w.Scripts[id] = &wl.Handler
	w.Log(Event{Actor: "route", Op: "begin", Detail: id + " key=" + key})
	w.RunCall(r.conn(key), &wl.Call)
	w.Log(Event{Actor: "route", Op: "end", Detail: id + " key=" + key})
}

func (r *regWorld) finish() {
	w := r.w
	var labels []string
	for l := range r.tuns {
		labels = append(labels, l)
	}
	sort.Strings(labels)
	w.Drain()
	for _, l := range labels {
		t := r.tuns[l]
		t.RevSrv.Stop()
	}
	for _, l := range labels {
		r.tuns[l].AwaitEnd()
		r.tuns[l].Cancel()
	}
	w.Drain()
}

// regOracle judges an execution from its observation log against the model set.
func regOracle(w *World, x *Exec, keys map[string]string) []Violation {
	var vs []Violation
	bad := func(rule, sig, d string) {
		vs = append(vs, Violation{Prop: "C12", Rule: rule, Sig: sig, Detail: d + "\n" + w.Outcome()})
	}
	// model: open set over time from env open-end / close-end and callbacks
	type span struct{ regStart, regEnd, closeStart, closeEnd int }
	spans := map[string]*span{}
	opens, closes := map[string]int{}, map[string]int{}
	for _, e := range w.Events {
		if e.Actor != "env" {
			continue
		}
		switch e.Op {
		case "open-begin":
			spans[e.Detail] = &span{regStart: e.Step, regEnd: 1 << 30, closeStart: 1 << 30, closeEnd: 1 << 30}
		case "open-end":
			spans[e.Detail].regEnd = e.Step
		case "close-begin":
			spans[e.Detail].closeStart = e.Step
		case "close-end":
			spans[e.Detail].closeEnd = e.Step
		case "rev-open-cb":
			opens[e.Detail]++
			if opens[e.Detail] > 1 {
				bad("one-open-callback", "reg:open-callback-twice", e.Detail)
			}
		case "rev-close-cb":
			closes[e.Detail]++
			if opens[e.Detail] == 0 {
				bad("open-then-close-callback", "reg:close-callback-without-open", e.Detail)
			}
		}
	}
	for name, n := range closes {
		if n > 1 {
			bad("one-close-callback", "reg:close-callback-twice", name)
		}
	}
	for name := range opens {
		if closes[name] == 0 {
			bad("one-close-callback", "reg:no-close-callback", name+" was opened but its close callback never ran although every tunnel was ended")
		}
	}
	// views at quiescent check points
	for _, e := range w.Events {
		if e.Actor != "views" {
			continue
		}
		want := map[string]bool{}
		ready := map[string]bool{}
		for l, sp := range spans {
			if sp.regEnd <= e.Step && sp.closeStart > e.Step {
				want["rev:"+l] = true
				ready["*"] = true
				ready[keys[l]] = true
			} else if !(sp.closeEnd <= e.Step || sp.regStart > e.Step) {
				want = nil // an open or close is in progress: not a quiescent moment
				break
			}
		}
		if want == nil {
			continue
		}
		var ws []string
		for k := range want {
			ws = append(ws, k)
		}
		sort.Strings(ws)
		exp := "all=" + strings.Join(ws, ",")
		for _, k := range []string{"*", "", "a", "b"} {
			exp += fmt.Sprintf(" ready[%s]=%v", k, ready[k])
		}
		if e.Detail != exp {
			bad("views-equal-open-set", "reg:views-differ:"+e.Op, fmt.Sprintf("at %s: views %q, open tunnels %q", e.Op, e.Detail, exp))
		}
	}
	// routed RPCs
	type rt struct {
		id, key    string
		begin, end int
	}
	var routes []rt
	for _, e := range w.Events {
		if e.Actor == "route" {
			f := strings.Fields(e.Detail)
			id, key := f[0], strings.TrimPrefix(f[1], "key=")
			if e.Op == "begin" {
				routes = append(routes, rt{id: id, key: key, begin: e.Step, end: 1 << 30})
			} else {
				for i := range routes {
					if routes[i].id == id {
						routes[i].end = e.Step
					}
				}
			}
		}
	}
	servedBy := map[string]string{}
	for _, r := range routes {
		for _, e := range w.EventsOf("handler:" + r.id) {
			if e.Op == "invoked" {
				label := e.Detail[strings.Index(e.Detail, "@rev:")+5:]
				servedBy[r.id] = label
				if r.key != "*" && keys[label] != r.key {
					bad("routed-by-key", "reg:wrong-key", fmt.Sprintf("rpc %s for key %q served by tunnel %s with key %q", r.id, r.key, label, keys[label]))
				}
				sp := spans[label]
				if sp == nil || sp.regStart > r.end || sp.closeEnd < r.begin {
					bad("routed-to-open-tunnel", "reg:routed-to-closed-tunnel", fmt.Sprintf("rpc %s [%d,%d] served by tunnel %s which was not open then", r.id, r.begin, r.end, label))
				}
			}
		}
		ok := false
		for _, e := range w.EventsOf("caller:" + r.id) {
			if e.Op == "invoke" && e.OK() {
				ok = true
			}
		}
		// with a stable non-empty set for the key during the whole RPC it must succeed
		stable := 0
		for l, sp := range spans {
			if (r.key == "*" || keys[l] == r.key) && sp.regEnd <= r.begin && sp.closeStart > r.end {
				stable++
			}
		}
		moving := false
		for l, sp := range spans {
			if r.key == "*" || keys[l] == r.key {
				if !(sp.regEnd <= r.begin && sp.closeStart > r.end) && !(sp.closeEnd <= r.begin) && !(sp.regStart > r.end) {
					moving = true
				}
			}
		}
		if stable > 0 && !moving && !ok {
			bad("routed-to-open-tunnel", "reg:rpc-failed-with-open-tunnel", fmt.Sprintf("rpc %s for key %q failed although %d matching tunnels were open and stable", r.id, r.key, stable))
		}
	}
	// round robin: groups declared by the scenario ("rr:<group>" = ids, expected labels)
	for k, v := range w.Vals {
		if !strings.HasPrefix(k, "rr:") {
			continue
		}
		g := v.([2][]string)
		ids, want := g[0], append([]string{}, g[1]...)
		var got []string
		for _, id := range ids {
			got = append(got, servedBy[id])
		}
		sort.Strings(got)
		sort.Strings(want)
		if strings.Join(got, ",") != strings.Join(want, ",") {
			bad("round-robin-uses-each-once", "reg:round-robin", fmt.Sprintf("group %s: %d consecutive RPCs were served by %v, the stable set is %v", k, len(ids), got, want))
		}
	}
	return dedupeViolations(vs)
}

func c12Scenarios(tier string) []*Scenario {
	var scs []*Scenario
	bound := 1
	if tier == "thorough" {
		bound = 2
	}
	focus := []string{"openReverseTunnel", "unregister", "allChans", "pick", "add", "remove", "ready", "waitForReady", "pickKey", "keyIsReady",
		"waitForKeyReady", "reverseChannelsForKey", "close", "Invoke", "NewStream", "AllReverseTunnels", "newReverseChannel"}
	keysOf := func(r *regWorld) map[string]string { return r.keys }
	_ = keysOf
	mk := func(name, desc string, level string, b int, run func(w *World, r *regWorld)) {
		for _, revOrder := range []bool{false, true} {
			revOrder := revOrder
			if revOrder && !strings.HasPrefix(name, "p3") && !strings.HasPrefix(name, "p4") && !strings.HasPrefix(name, "p5") {
				continue // the second scheduler family for the programs with concurrent threads
			}
			scs = append(scs, &Scenario{
				Name: fmt.Sprintf("c12/%s/rev=%v", name, revOrder), Prop: "C12", Desc: desc, Heavy: true,
				Opt: Options{Level: level, Focus: focus, Bound: b, RevOrder: revOrder},
				Run: func(w *World) {
					r := newRegWorld(w)
					run(w, r)
					r.finish()
				},
				Check: func(w *World, x *Exec) []Violation {
					vs := NoHang(x, "C12")
					if x.Hang {
						return vs
					}
					r := w.Vals["reg"].(*regWorld)
					vs = append(vs, regOracle(w, x, r.keys)...)
					vs = append(vs, NoLeak(w, x, "C12")...)
					return vs
				},
			})
		}
	}
	rr := func(w *World, r *regWorld, group string, ids []string, tag byte, key string, want []string) {
		for i, id := range ids {
			r.route(id, tag+byte(i), key)
		}
		w.Vals["rr:"+group] = [2][]string{ids, want}
	}
	// P1: sequential history: open a,a; round robin by key and over all; close one; round robin again
	for _, how := range []string{"handler", "serving", "stop", "break"} {
		how := how
		mk("p1-seq/"+how, "open two tunnels with key a, check the views, route 2+2 RPCs (by key, over all), close the first ("+how+"), check, route 2 more, open a third with key b, check", "focus", bound,
			func(w *World, r *regWorld) {
				r.open("A", "a")
				r.views("one")
				r.open("B", "a")
				r.views("two")
				rr(w, r, "g1", []string{"k1", "k2"}, 10, "a", []string{"A", "B"})
				rr(w, r, "g2", []string{"x1", "x2"}, 20, "*", []string{"A", "B"})
				r.closeTun("A", how)
				r.views("after-close")
				rr(w, r, "g3", []string{"k3", "k4"}, 30, "a", []string{"B", "B"})
				r.open("C", "b")
				r.views("three")
				rr(w, r, "g4", []string{"y1", "y2"}, 40, "*", []string{"B", "C"})
				rr(w, r, "g5", []string{"z1"}, 50, "b", []string{"C"})
			})
	}
	// P2: three tunnels (nil, a, a): wrap-around of the round-robin cursor after removals
	mk("p2-wrap", "open tunnels with keys nil, a, a; route 3 RPCs over all; close the last two; route 2 more; reopen; route 2 over key a", "focus", bound,
		func(w *World, r *regWorld) {
			r.open("N", "")
			r.open("A", "a")
			r.open("B", "a")
			r.views("three")
			rr(w, r, "g1", []string{"x1", "x2", "x3"}, 10, "*", []string{"N", "A", "B"})
			r.closeTun("B", "handler")
			r.closeTun("A", "handler")
			r.views("one-left")
			rr(w, r, "g2", []string{"x4", "x5"}, 20, "*", []string{"N", "N"})
			rr(w, r, "g3", []string{"n1"}, 30, "", []string{"N"})
			r.open("C", "a")
			r.open("D", "a")
			rr(w, r, "g4", []string{"k1", "k2"}, 40, "a", []string{"C", "D"})
			r.views("three-again")
		})
	// P3: WaitForReady blocks while empty, returns on registration, blocks again after the key empties
	mk("p3-waitready", "a waiter calls WaitForReady(a) before any tunnel exists, again after the only tunnel with key a closed, while tunnels are opened and closed", "focus", bound,
		func(w *World, r *regWorld) {
			r.open("N", "") // creates the handler; key nil
			waiter := w.Go("waiter", true, func() {
				for i := 0; i < 2; i++ {
					w.Point("waiter:wait")
					w.Log(Event{Actor: "waiter", Op: "wait-begin", Idx: i})
					err := r.conn("a").WaitForReady(context.Background())
					em, ec := errFields(err)
					w.Log(Event{Actor: "waiter", Op: "wait-end", Idx: i, Err: em, Code: ec})
					if i == 0 {
						// wait for the key to empty again before the second round
						w.WaitUntil("waiter:emptied", func() bool {
							for _, e := range w.Events {
								if e.Actor == "env" && e.Op == "close-end" && e.Detail == "A" {
									return true
								}
							}
							return false
						})
					}
				}
			})
			w.Vals["waiter"] = true
			r.views("nil-only")
			r.open("A", "a")
			r.views("a-open")
			r.closeTun("A", "handler")
			r.views("a-closed")
			r.open("B", "a")
			w.Join(waiter)
		})
	// P4: routing concurrent with opening and closing
	for _, how := range []string{"handler", "serving"} {
		how := how
		mk("p4-concurrent/"+how, "two tunnels with key a are open; one is closed ("+how+") and a third (key a) opened by the environment thread while a router thread issues 3 RPCs by key and a query thread reads the views", "focus", bound,
			func(w *World, r *regWorld) {
				r.open("A", "a")
				r.open("B", "a")
				router := w.Go("router", true, func() {
					for i := 0; i < 3; i++ {
						r.route(fmt.Sprintf("k%d", i), byte(10+i), "a")
					}
				})
				query := w.Go("query", true, func() {
					r.views("q1")
					r.views("q2")
				})
				r.closeTun("A", how)
				r.open("C", "a")
				w.Join(router, query)
				r.views("end")
			})
	}
	// P5: two routers at once over a stable set: the cursor is advanced atomically, so two
	// concurrent RPCs (and the two that follow) still use each tunnel exactly once
	for _, key := range []string{"a", "*"} {
		key := key
		mk("p5-two-routers/"+map[string]string{"a": "key", "*": "all"}[key], "two tunnels (key a) are open and stable; two router threads each route one RPC at the same time, then two more RPCs are routed in sequence; every lock and atomic operation of the routing code is a scheduling point", "focus", bound+1,
			func(w *World, r *regWorld) {
				r.open("A", "a")
				r.open("B", "a")
				r1 := w.Go("router1", true, func() { r.route("c1", 10, key) })
				r2 := w.Go("router2", true, func() { r.route("c2", 11, key) })
				w.Join(r1, r2)
				w.Vals["rr:conc"] = [2][]string{{"c1", "c2"}, {"A", "B"}}
				rr(w, r, "after", []string{"s1", "s2"}, 20, key, []string{"A", "B"})
				r.views("end")
			})
	}
	// a tunnel that ends while it is being opened and registered must not stay in any view
	for _, sc := range c14Dedicated(tier) {
		if !strings.HasPrefix(sc.Name, "c14/open-vs-") {
			continue
		}
		c := *sc
		orig := sc.Check
		c.Name, c.Prop = "c12/"+strings.TrimPrefix(sc.Name, "c14/"), "C12"
		c.Check = func(w *World, x *Exec) []Violation {
			vs := orig(w, x)
			for i := range vs {
				vs[i].Prop = "C12"
				vs[i].Sig = "reg:" + vs[i].Sig
			}
			return vs
		}
		scs = append(scs, &c)
	}
	return scs
}

func init() {
	register(&PropDef{ID: "C12", Level: "model_checking",
		Rule:      "registry histories over <= 4 reverse tunnels with keys from {nil, a, a, b}: open, close from the handler side, from the serving side (context cancel, Stop) and by carrier failure, interleaved with routed unary RPCs (AsChannel / KeyAsChannel), Ready / WaitForReady / AllReverseTunnels queries from other threads; every lock, atomic and channel operation of the registry code (handler.go, tunnelChannel.close) is a scheduling point; all schedules with <= 1 (quick) / 2 (thorough) deviations; oracle: at every check point with no open/close in progress the three views equal the model set, an RPC is only served by an open tunnel with the right key and succeeds when the key's set is stable and non-empty, n consecutive RPCs over a stable set of n tunnels use each once (also when two of them are routed concurrently), WaitForReady returns iff the set is non-empty, one open then one close callback per tunnel, nothing left behind",
		Scenarios: c12Scenarios})
}
