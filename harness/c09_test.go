package harness

import (
	"context"
	"fmt"
	"io"
	"strings"

	"github.com/jhump/grpctunnel"
	"github.com/jhump/grpctunnel/tunnelpb"
	"google.golang.org/grpc/codes"
	"google.golang.org/grpc/metadata"
)

// ---- reference classifier for client->server histories (SPEC-PEER, server role) -----------

type specStream struct {
	open        bool
	msgLeft     int // -1: no message open
	halfClosed  bool
	errored     bool // a stream-level violation happened
	rejected    bool
	cancelled   bool
	window      int
	valid       bool // handler exists
	unspecified bool
}

type specServer struct {
	lastSeen   int64
	streams    map[int64]*specStream
	tunnelDead bool
	why        string
	fc         bool
}

func newSpecServer() *specServer { return &specServer{lastSeen: -1, streams: map[int64]*specStream{}} }

var validMethods = map[string]bool{"/verif.T/Unary": true, "/verif.T/Bidi": true, "/verif.T/ClientStream": true, "/verif.T/ServerStream": true,
	"verif.T/Unary": true, "verif.T/Bidi": true, "verif.T/ClientStream": true, "verif.T/ServerStream": true}

func (s *specServer) step(f *tunnelpb.ClientToServer) {
	if s.tunnelDead {
		return
	}
	id := f.StreamId
	if ns, ok := f.Frame.(*tunnelpb.ClientToServer_NewStream); ok {
		if st := s.streams[id]; st != nil && st.open {
			s.tunnelDead, s.why = true, "new_stream for an open id"
			return
		}
		if id <= s.lastSeen {
			s.tunnelDead, s.why = true, "new_stream id not greater than all seen"
			return
		}
		s.lastSeen = id
		st := &specStream{msgLeft: -1, window: protoWindow}
		s.streams[id] = st
		rev := ns.NewStream.ProtocolRevision
		switch {
		case rev != 0 && rev != 1:
			st.rejected = true
		case !validMethods[ns.NewStream.MethodName]:
			st.rejected = true
		default:
			st.open, st.valid = true, true
			if rev == 0 {
				st.window = -1
			}
		}
		return
	}
	st := s.streams[id]
	if st == nil || !st.open {
		if id <= s.lastSeen || id < 0 {
			// late frame for a finished (or rejected) stream: ignored. Negative ids can
			// never have been created; the implementation drops them like late frames,
			// which the documented protocol neither requires nor forbids.
			return
		}
		s.tunnelDead, s.why = true, "frame for a stream that was never created"
		return
	}
	if _, isCancel := f.Frame.(*tunnelpb.ClientToServer_Cancel); st.halfClosed && !isCancel {
		// after half-close the server may finish the stream at any moment, after which
		// frames are late and ignored; before that they are unspecified: no constraint
		st.unspecified = true
		return
	}
	switch fr := f.Frame.(type) {
	case *tunnelpb.ClientToServer_RequestMessage:
		n := len(fr.RequestMessage.Data)
		if st.window >= 0 {
			if n > st.window {
				st.errored = true
				return
			}
		}
		if st.msgLeft > 0 || n > int(fr.RequestMessage.Size) {
			st.errored = true
			return
		}
		st.msgLeft = int(fr.RequestMessage.Size) - n
	case *tunnelpb.ClientToServer_MoreRequestData:
		n := len(fr.MoreRequestData)
		if st.halfClosed {
			return
		}
		if st.msgLeft <= 0 || n > st.msgLeft {
			st.errored = true
			return
		}
		st.msgLeft -= n
	case *tunnelpb.ClientToServer_HalfClose:
		st.halfClosed = true
		if st.msgLeft > 0 {
			st.errored = true // half-close in the middle of a message
		}
	case *tunnelpb.ClientToServer_Cancel:
		st.open, st.cancelled = false, true
	case *tunnelpb.ClientToServer_WindowUpdate:
	case nil:
		st.errored = true
	}
}

// ---- scenarios -----------------------------------------------------------------------------

type c2sFrame struct {
	name string
	mk   func() *tunnelpb.ClientToServer
}

func c09ClientAlphabet(tier string) []c2sFrame {
	m := msgBytes(7, 0, 0, 3)
	// a 10-byte message whose last 7 bytes are, on their own, a well-formed message too: an
	// endpoint that wrongly accepts a continuation frame without an envelope then hands the
	// application a message instead of tripping over garbage
	m10 := []byte{0x0a, 0x08, 0x07, 0x0a, 0x05, 1, 2, 3, 4, 5}
	big := make([]byte, 16384)
	a := []c2sFrame{
		{"N0B", func() *tunnelpb.ClientToServer { return fNew(0, "/verif.T/Bidi", 1, 65536, "s0") }},
		{"N1B", func() *tunnelpb.ClientToServer { return fNew(1, "/verif.T/Bidi", 1, 65536, "s1") }},
		{"N1U", func() *tunnelpb.ClientToServer { return fNew(1, "verif.T/Unary", 1, 65536, "s1") }},
		{"N-1B", func() *tunnelpb.ClientToServer { return fNew(-1, "/verif.T/Bidi", 1, 65536, "sm") }},
		{"N1empty", func() *tunnelpb.ClientToServer { return fNew(1, "", 1, 65536, "s1") }},
		{"N1noslash", func() *tunnelpb.ClientToServer { return fNew(1, "noslash", 1, 65536, "s1") }},
		{"N1nope", func() *tunnelpb.ClientToServer { return fNew(1, "/verif.T/Nope", 1, 65536, "s1") }},
		{"N1rev7", func() *tunnelpb.ClientToServer { return fNew(1, "/verif.T/Bidi", 7, 65536, "s1") }},
		{"N1rev0", func() *tunnelpb.ClientToServer { return fNew(1, "/verif.T/Bidi", 0, 0, "s1") }},
		{"N1win0", func() *tunnelpb.ClientToServer { return fNew(1, "/verif.T/ServerStream", 1, 0, "s1") }},
		{"M0", func() *tunnelpb.ClientToServer { return fReq(0, uint32(len(m)), m) }},
		{"M1", func() *tunnelpb.ClientToServer { return fReq(1, uint32(len(m)), m) }},
		{"M0part", func() *tunnelpb.ClientToServer { return fReq(0, 10, m10[:3]) }},
		{"M0over", func() *tunnelpb.ClientToServer { return fReq(0, 2, m) }},
		{"M0max", func() *tunnelpb.ClientToServer { return fReq(0, maxU32, big) }},
		{"M5", func() *tunnelpb.ClientToServer { return fReq(5, uint32(len(m)), m) }},
		{"D0", func() *tunnelpb.ClientToServer { return fMoreReq(0, m10[3:]) }},
		{"D0big", func() *tunnelpb.ClientToServer { return fMoreReq(0, make([]byte, 16385)) }},
		{"H0", func() *tunnelpb.ClientToServer { return fHalf(0) }},
		{"H1", func() *tunnelpb.ClientToServer { return fHalf(1) }},
		{"C0", func() *tunnelpb.ClientToServer { return fCancel(0) }},
		{"C1", func() *tunnelpb.ClientToServer { return fCancel(1) }},
		{"W0zero", func() *tunnelpb.ClientToServer { return fWinC(0, 0) }},
		{"W0max", func() *tunnelpb.ClientToServer { return fWinC(0, maxU32) }},
		{"Z0", func() *tunnelpb.ClientToServer { return fNilC(0) }},
		{"Z9", func() *tunnelpb.ClientToServer { return fNilC(9) }},
	}
	return a
}

func c09ServerHistories(tier string) [][]int {
	n := len(c09ClientAlphabet(tier))
	maxLen := 3
	var out [][]int
	var gen func(cur []int)
	gen = func(cur []int) {
		if len(cur) > 0 {
			out = append(out, append([]int{}, cur...))
		}
		if len(cur) == maxLen {
			return
		}
		for i := 0; i < n; i++ {
			gen(append(cur, i))
		}
	}
	gen(nil)
	if tier == "thorough" {
		// length 4: histories that start by opening stream 0 (the prefix that reaches the deepest states)
		for a := 0; a < n; a++ {
			for b := 0; b < n; b++ {
				for c := 0; c < n; c++ {
					out = append(out, []int{0, a, b, c})
				}
			}
		}
	}
	return out
}

func c09ServerScenario(prop, name string, frames []c2sFrame, negotiate bool, opt Options) *Scenario {
	var names []string
	for _, f := range frames {
		names = append(names, f.name)
	}
	opt.AllocRisk = strings.Contains(name, "max") || strings.Contains(name, "GiB")
	return &Scenario{
		Name: name, Prop: prop,
		Desc: fmt.Sprintf("scripted raw tunnel client sends %v to the real tunnel server (handlers read everything and return OK), then hangs up", names),
		Opt:  opt,
		Run: func(w *World) {
			h := grpctunnel.NewTunnelServiceHandler(grpctunnel.TunnelServiceHandlerOptions{})
			h.RegisterService(&TestSvcDesc, &TestServer{W: w, Name: "fwd"})
			n := NewNet(w, "T")
			n.Peer = DefaultPeer()
			tunnelpb.RegisterTunnelServiceServer(n, h.Service())
			w.Scripts["*"] = &HandlerScript{ID: "any", Tag: 9, Ops: []HOp{{K: "recvall"}, {K: "return", Size: 3}}}
			// the handler of stream id 1 stays parked after the end of its requests, so the
			// stream remains registered and frames that follow its half-close still reach it
			w.Scripts["s1"] = &HandlerScript{ID: "s1", Tag: 8, KeepGoing: true, Ops: []HOp{{K: "recvall"}, {K: "waitctx"}, {K: "return", Size: 3}}}
			rc, err := w.OpenRawClient(n, negotiate)
			if err != nil {
				return
			}
			w.Vals["rc"] = rc
			peer := w.GoPeer("rawclient", func() {
				for _, f := range frames {
					if rc.Send(f.mk()) != nil {
						break
					}
				}
				rc.Finish()
			})
			w.Join(peer)
			w.Drain()
		},
		Check: func(w *World, x *Exec) []Violation {
			vs := NoHang(x, prop)
			if x.Hang {
				return vs
			}
			bad := func(rule, sig, d string) {
				vs = append(vs, Violation{Prop: prop, Rule: rule, Sig: sig, Detail: fmt.Sprintf("%v: %s\n%s", names, d, w.Outcome())})
			}
			rc, _ := w.Vals["rc"].(*RawClient)
			if rc == nil {
				return vs
			}
			spec := newSpecServer()
			for _, f := range frames {
				spec.step(f.mk())
			}
			_, finalCode := errFields(rc.Final)
			if spec.tunnelDead && finalCode == "EOF" {
				bad("tunnel-level-violation-ends-tunnel", "peer:tunnel-violation-tolerated", "the history contains a tunnel-level violation ("+spec.why+") but the tunnel ended cleanly")
			}
			if !spec.tunnelDead && finalCode != "EOF" {
				bad("stream-level-violation-keeps-tunnel", "peer:tunnel-killed:"+classOf(frames), fmt.Sprintf("no tunnel-level violation in the history, but the tunnel ended with %s(%v)", finalCode, rc.Final))
			}
			if !spec.tunnelDead {
				for id, st := range spec.streams {
					cl := rc.CloseOf(id)
					if len(cl) > 1 {
						bad("one-close", "peer:two-closes", fmt.Sprintf("stream %d got %d close frames", id, len(cl)))
					}
					mustFail := st.rejected || st.errored
					if mustFail && len(cl) == 0 {
						bad("violation-fails-that-rpc", "peer:no-error-close", fmt.Sprintf("stream %d violated the protocol (or was rejected) but received no close frame", id))
					}
					if mustFail && len(cl) == 1 && codes.Code(cl[0].GetStatus().GetCode()) == codes.OK && !st.cancelled {
						bad("violation-fails-that-rpc", "peer:violation-closed-ok", fmt.Sprintf("stream %d violated the protocol but was closed with OK", id))
					}
					if !mustFail && st.valid && !st.unspecified && st.halfClosed && !st.cancelled && st.msgLeft <= 0 && len(cl) == 1 && codes.Code(cl[0].GetStatus().GetCode()) != codes.OK {
						c := codes.Code(cl[0].GetStatus().GetCode())
						// a non-streaming method that received 0 or several messages legitimately fails
						if !(c == codes.InvalidArgument || c == codes.Internal || c == codes.Unimplemented) {
							bad("valid-stream-unaffected", "peer:valid-stream-failed:"+c.String(), fmt.Sprintf("stream %d was valid but closed with %s(%s)", id, c, cl[0].GetStatus().GetMessage()))
						}
					}
				}
			}
			for _, wn := range mustWindows(w) {
				bad("bounded-buffering", "peer:receiver-window-corrupt", wn)
			}
			vs = append(vs, NoLeak(w, x, prop)...)
			return vs
		},
	}
}

func mustWindows(w *World) []string {
	var out []string
	wins, _ := w.ReceiverWindows()
	for i, cw := range wins {
		if cw > protoWindow {
			out = append(out, fmt.Sprintf("receiver #%d advertises %d", i, cw))
		}
	}
	return out
}

// classOf names the first "interesting" frame of a history for signatures.
func classOf(frames []c2sFrame) string {
	for _, f := range frames {
		switch {
		case strings.Contains(f.name, "empty"), strings.Contains(f.name, "rev7"), strings.Contains(f.name, "nope"), strings.Contains(f.name, "noslash"):
			return f.name
		}
	}
	if len(frames) > 0 {
		return frames[0].name
	}
	return "none"
}

func c09Scenarios(tier string) []*Scenario {
	var scs []*Scenario
	alpha := c09ClientAlphabet(tier)
	for _, h := range c09ServerHistories(tier) {
		var fr []c2sFrame
		var nm []string
		for _, i := range h {
			fr = append(fr, alpha[i])
			nm = append(nm, alpha[i].name)
		}
		b := 0
		if len(h) <= 2 || tier == "thorough" {
			b = 1 // the peer may also speak before the endpoint has digested the previous frame
		}
		scs = append(scs, c09ServerScenario("C09", "c09/h1s/"+strings.Join(nm, ","), fr, true, Options{Level: "io", Bound: b}))
		if len(h) <= 2 || h[0] <= 1 {
			// the reverse role: every history of length <= 2, and the length-3 histories that
			// start by opening a stream (the others differ from the forward role only in the
			// wrapper around the carrier stream)
			scs = append(scs, c09ReverseServerScenario("c09/h1r/"+strings.Join(nm, ","), fr, Options{Level: "io", Bound: 0}))
		}
	}
	scs = append(scs, c09ClientScenarios(tier)...)
	// announced sizes: a message envelope that declares far more than it (and the continuation
	// that follows) carries, in all four roles; what the endpoint allocates must be bounded by
	// what it received (every execution's heap allocation is measured)
	type decl struct {
		n string
		s uint32
	}
	for _, d := range []decl{{"1MiB", 1 << 20}, {"64MiB", 64 << 20}, {"1GiB", 1 << 30}, {"max", maxU32}} {
		for _, first := range []int{3, 16384} {
			for _, tail := range []string{"hangup", "cancel"} {
				d, first := d, first
				for _, method := range []string{"Bidi", "Unary"} {
					method := method
					fr := []c2sFrame{
						{"N0" + method[:1], func() *tunnelpb.ClientToServer { return fNew(0, "/verif.T/"+method, 1, 65536, "s0") }},
						{fmt.Sprintf("M0decl%s/%d", d.n, first), func() *tunnelpb.ClientToServer { return fReq(0, d.s, make([]byte, first)) }},
						{"D0seven", func() *tunnelpb.ClientToServer { return fMoreReq(0, make([]byte, 7)) }},
					}
					if tail == "cancel" {
						fr = append(fr, c2sFrame{"C0", func() *tunnelpb.ClientToServer { return fCancel(0) }})
					}
					var nm []string
					for _, f := range fr {
						nm = append(nm, f.name)
					}
					scs = append(scs, c09ServerScenario("C09", "c09/decl/s/"+strings.Join(nm, ","), fr, true, Options{Level: "io", Bound: 1}))
					scs = append(scs, c09ReverseServerScenario("c09/decl/r/"+strings.Join(nm, ","), fr, Options{Level: "io", Bound: 1}))
				}
				fr := []s2cFrame{
					{"Hd1", func() *tunnelpb.ServerToClient { return fHdr(1, nil) }},
					{fmt.Sprintf("Msg1decl%s/%d", d.n, first), func() *tunnelpb.ServerToClient { return fResp(1, d.s, make([]byte, first)) }},
					{"More1seven", func() *tunnelpb.ServerToClient { return fMoreResp(1, make([]byte, 7)) }},
				}
				if tail == "cancel" {
					fr = append(fr, s2cFrame{"CloseErr1", func() *tunnelpb.ServerToClient { return fClose(1, codes.DataLoss, "scripted") }})
				}
				var nm []string
				for _, f := range fr {
					nm = append(nm, f.name)
				}
				scs = append(scs, c09ClientScenario("c09/decl/c/"+strings.Join(nm, ","), fr, nm, 1))
				rcs := c09ReverseClientScenario(fr, nm, 1)
				rcs.Name = "c09/decl/rc/" + strings.Join(nm, ",")
				rcs.Opt.AllocRisk = d.s >= 1<<30
				scs = append(scs, rcs)
			}
		}
	}
	// "... or make it buffer more than one flow-control window of data per open stream": the
	// overrunning raw peers of C06 (both roles, including peers that announce absurd windows
	// for their own direction) are part of this property's hostile inputs
	for _, sc := range c06Scenarios(tier) {
		if !strings.HasPrefix(sc.Name, "c06/raw-") {
			continue
		}
		c := *sc
		orig := sc.Check
		c.Name, c.Prop = "c09/bloat/"+strings.TrimPrefix(sc.Name, "c06/"), "C09"
		c.Check = func(w *World, x *Exec) []Violation {
			vs := orig(w, x)
			for i := range vs {
				vs[i].Prop = "C09"
				vs[i].Sig = "bloat:" + vs[i].Sig
			}
			return vs
		}
		scs = append(scs, &c)
	}
	return scs
}

func init() {
	register(&PropDef{ID: "C09", Level: "model_checking",
		Rule:      "bounded-exhaustive frame histories: every sequence of length <= 3 (thorough: plus every length-4 history that first opens a stream) over a 26-frame client->server alphabet (new_stream with reused/negative/unknown ids, empty/malformed/unknown methods, unsupported revisions; message envelopes with wrong sizes; continuation frames; half-close; cancel; absurd window updates; frames with no kind; unknown ids) sent by a scripted raw client to the real tunnel server (forward tunnel; and, for the histories of length <= 2 and those that open a stream first, by a scripted network server to a real ReverseTunnelServer), and every sequence of length <= 3 over a 22-frame server->client alphabet sent by a scripted raw server to the real tunnel client running one RPC; each history run with the peer as slow as possible (every frame sent only when the endpoint is quiescent) and, for histories of length <= 2 (quick) / all (thorough), with every single deviation from that (a frame sent early, a thread delayed); each history judged against a reference classifier of the documented protocol (tunnel-level violation => tunnel ends with an error; stream-level => only that RPC fails; late frames ignored) plus no panic, no hang, bounded receiver windows, bounded heap allocation per execution (32 MiB; dedicated histories whose envelope announces 1 MiB .. 4 GiB but carries 3 or 16384 bytes, all four roles) and nothing left behind after the peer hangs up",
		Globals:   []func(*Scenario, *World, *Exec) []Violation{ProtoMonitor},
		Scenarios: c09Scenarios})
}

// ---- reverse roles: the same client->server histories, sent by a scripted network SERVER to a
// real ReverseTunnelServer (which plays the tunnel-server role over the client side of the
// carrier stream: different wrappers and a different tear-down path than the forward server).

type rawRevServer struct {
	tunnelpb.UnimplementedTunnelServiceServer
	w      *World
	frames []c2sFrame
	rc     *RawClient
}

func (r *rawRevServer) OpenReverseTunnel(stream tunnelpb.TunnelService_OpenReverseTunnelServer) error {
	w := r.w
	_ = stream.SendHeader(metadata.Pairs("grpctunnel-negotiate", "on"))
	if me := w.S.Me(); me != nil {
		me.Low = 1 // a slow peer: it speaks only when the endpoint is quiescent
	}
	w.Go("rawrev-reader", false, func() {
		for {
			m, err := stream.Recv()
			if err != nil {
				return
			}
			r.rc.Recvd = append(r.rc.Recvd, m)
			w.Log(Event{Actor: "rawclient", Op: "got", Detail: s2cKind(m, dataLenS(m)), Idx: int(m.StreamId)})
		}
	})
	for _, f := range r.frames {
		w.Point("raw:send")
		if stream.Send(f.mk()) != nil {
			break
		}
	}
	w.Point("raw:hangup")
	return nil
}

func c09ReverseServerScenario(name string, frames []c2sFrame, opt Options) *Scenario {
	var names []string
	for _, f := range frames {
		names = append(names, f.name)
	}
	base := c09ServerScenario("C09", name, frames, true, opt)
	base.Desc = fmt.Sprintf("scripted network server accepts a reverse tunnel from a real ReverseTunnelServer and sends it %v (as the tunnel client would), then hangs up", names)
	base.Run = func(w *World) {
		n := NewNet(w, "T")
		n.Peer = DefaultPeer()
		rc := &RawClient{W: w, Name: "T0"}
		w.Vals["raw:T0:client"] = true
		w.Vals["rc"] = rc
		tunnelpb.RegisterTunnelServiceServer(n, &rawRevServer{w: w, frames: frames, rc: rc})
		rs := grpctunnel.NewReverseTunnelServer(tunnelpb.NewTunnelServiceClient(n))
		rs.RegisterService(&TestSvcDesc, &TestServer{W: w, Name: "rev"})
		w.Scripts["*"] = &HandlerScript{ID: "any", Tag: 9, Ops: []HOp{{K: "recvall"}, {K: "return", Size: 3}}}
		w.Scripts["s1"] = &HandlerScript{ID: "s1", Tag: 8, KeepGoing: true, Ops: []HOp{{K: "recvall"}, {K: "waitctx"}, {K: "return", Size: 3}}}
		ctx, cancel := context.WithCancel(context.Background())
		defer cancel()
		serve := w.Go("serve:T", true, func() {
			_, err := rs.Serve(ctx)
			if err == nil {
				err = io.EOF // the reference speaks of the forward server, whose clean end is EOF at the peer
			}
			rc.Final = err
			rc.Done = true
			em, ec := errFields(err)
			w.Log(Event{Actor: "rawclient", Op: "tunnel-ended", Err: em, Code: ec})
		})
		w.Join(serve)
		w.WaitUntil("carrier-done", func() bool {
			for _, ms := range n.Streams {
				if !ms.Finished {
					return false
				}
			}
			return true
		})
		w.Drain()
	}
	return base
}
