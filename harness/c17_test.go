package harness

import (
	"context"
	"fmt"
	"strings"

	"github.com/jhump/grpctunnel"
	"github.com/jhump/grpctunnel/tunnelpb"
	"google.golang.org/grpc/codes"
	"google.golang.org/grpc/metadata"
)

// mutateHook mutates every map the accessors return inside a handler.
func mutateHook(ctx context.Context, w *World, actor string) {
	if tmd, ok := grpctunnel.TunnelMetadataFromIncomingContext(ctx); ok {
		tmd.Set("mutated-by", actor)
		delete(tmd, "a")
		for k := range tmd {
			if len(tmd[k]) > 0 {
				tmd[k][0] = "overwritten"
			}
		}
	}
	if md, ok := metadata.FromIncomingContext(ctx); ok {
		md.Set("mutated-by", actor)
	}
}

func c17Scenarios(tier string) []*Scenario {
	var scs []*Scenario
	bound := 1
	if tier == "thorough" {
		bound = 2
	}
	// the last two are opened from a context that ALSO carries incoming metadata (a tunnel opened
	// from inside a request handler): that is not the metadata that opens the tunnel
	openMDs := []metadata.MD{nil, {"a": {"1"}}, {"a": {"1", "2"}, "b-bin": {"xyz"}}, nil, {"a": {"1"}}}
	inMD := metadata.MD{"a": {"from-the-request-being-handled"}, "unrelated": {"x"}}
	for _, mode := range []string{"F", "R", "N"} {
		for mi, omd := range openMDs {
			mode, mi, omd := mode, mi, omd
			withIn := mi >= 3
			scs = append(scs, &Scenario{
				Name: fmt.Sprintf("c17/%s/openmd%d", mode, mi), Prop: "C17",
				Desc: fmt.Sprintf("tunnel mode %s (F forward, R reverse, N forward nested in forward) opened with metadata %s (opening context also carries unrelated incoming metadata: %v), a peer and an interceptor-set context value; two concurrent RPCs whose handlers and callers mutate every map the accessors return, then a third RPC reads them again, then a unary RPC that fails", mode, mdString(omd), withIn),
				Opt:  Options{Level: "io", Bound: bound},
				Run: func(w *World) {
					var t *Tun
					cfg := TunCfg{Reverse: mode == "R", OpenMD: omd}
					if withIn {
						cfg.OpenInMD = inMD
					}
					var outer *Tun
					if mode == "N" {
						// outer forward tunnel whose handler exposes the tunnel service of the inner handler
						inner := grpctunnel.NewTunnelServiceHandler(grpctunnel.TunnelServiceHandlerOptions{})
						inner.RegisterService(&TestSvcDesc, &TestServer{W: w, Name: "inner"})
						oh := grpctunnel.NewTunnelServiceHandler(grpctunnel.TunnelServiceHandlerOptions{})
						tunnelpb.RegisterTunnelServiceServer(oh, inner.Service())
						outer = w.OpenTunnel(TunCfg{Handler: oh, Label: "O", OpenMD: metadata.Pairs("outer", "1")})
						if outer.StartErr != nil {
							return
						}
						outer.Net.ServerCtx = nil
						ctx, cancel := context.WithCancel(context.Background())
						if omd != nil {
							ctx = metadata.NewOutgoingContext(ctx, omd.Copy())
						}
						if withIn {
							ctx = metadata.NewIncomingContext(ctx, inMD.Copy())
						}
						ch, err := grpctunnel.NewChannel(tunnelpb.NewTunnelServiceClient(outer.Ch)).Start(ctx)
						if err != nil {
							cancel()
							w.Log(Event{Actor: "env", Op: "start", Err: err.Error(), Code: "start-failed"})
							outer.Close()
							return
						}
						w.NameChan(ch, "fwd:inner")
						t = &Tun{W: w, Cfg: cfg, Ch: ch, Conn: ch, Cancel: cancel}
					} else {
						n := NewNet(w, "T")
						n.Peer = DefaultPeer()
						n.ServerCtx = func(ctx context.Context) context.Context {
							return context.WithValue(ctx, IvalKey{}, "set-by-interceptor")
						}
						cfg.Net = n
						h := grpctunnel.NewTunnelServiceHandler(grpctunnel.TunnelServiceHandlerOptions{
							OnReverseTunnelOpen: func(ch grpctunnel.TunnelChannel) {
								w.mu.Lock()
								l, _ := w.Vals["revopen"].([]grpctunnel.TunnelChannel)
								w.Vals["revopen"] = append(l, ch)
								w.mu.Unlock()
							}})
						if mode == "F" {
							h.RegisterService(&TestSvcDesc, &TestServer{W: w, Name: "fwd"})
						}
						tunnelpb.RegisterTunnelServiceServer(n, h.Service())
						cfg.Handler = h
						t = w.OpenTunnel(cfg)
						if t.StartErr != nil {
							return
						}
					}
					mk := func(id string, tag byte, hook bool) Workload {
						wl := StdWorkload(id, tag, "Bidi", []int{3}, []int{3})
						wl.Call.MD = metadata.Pairs("own", id)
						wl.Call.ChanOpt = true
						wl.Call.Ops = append(wl.Call.Ops, COp{K: "targets"})
						wl.Handler.Ops = append([]HOp{{K: "readctx"}}, wl.Handler.Ops...)
						if hook {
							wl.Handler.Hook = mutateHook
						}
						return wl
					}
					w.Join(w.StartCallers(t, []Workload{mk("r1", 1, true), mk("r2", 2, true)})...)
					w.Join(w.StartCallers(t, []Workload{mk("r3", 3, false)})...)
					// an RPC without any request metadata: its handler must see none - in particular
					// not the metadata of the tunnel-opening call
					nomd := StdWorkload("r4", 4, "Bidi", []int{3}, []int{3})
					nomd.Call.NoScriptKey = true
					nomd.Handler.Ops = append([]HOp{{K: "readctx"}}, nomd.Handler.Ops...)
					hs := nomd.Handler
					w.Scripts["*"] = &hs
					w.Join(w.Go("caller:r4", true, func() { w.RunCall(t.Conn, &nomd.Call) }))
					// per-RPC credentials whose key collides with the caller's own metadata: the handler
					// sees all of the RPC's request metadata
					cr := mk("r6", 6, false)
					cr.Call.Creds = testCreds{map[string]string{"own": "from-creds"}}
					w.Join(w.StartCallers(t, []Workload{cr})...)
					// a unary method driven through NewStream (generic clients and proxies do that):
					// its stream context identifies the tunnel like any other
					us := StdWorkload("r7", 7, "Unary", []int{3}, []int{3})
					us.Call.MD = metadata.Pairs("own", "r7")
					us.Call.ChanOpt = true
					us.Call.Ops = []COp{{K: "new"}, {K: "send", Size: 3}, {K: "closesend"}, {K: "recvall"}, {K: "targets"}}
					us.Handler.Ops = append([]HOp{{K: "readctx"}}, us.Handler.Ops...)
					w.Join(w.StartCallers(t, []Workload{us})...)
					// a unary RPC that fails: the caller can still tell which channel carried it
					fail := StdWorkload("r5", 5, "Unary", []int{3}, []int{3})
					fail.Call.ChanOpt = true
					fail.Call.Ops = append(fail.Call.Ops, COp{K: "targets"})
					fail.Handler.Ops = []HOp{{K: "recv"}, {K: "return", Code: codes.Aborted, Msg: "scripted"}}
					w.Join(w.StartCallers(t, []Workload{fail})...)
					if mode == "N" {
						t.Ch.Close()
						w.Drain()
						t.Cancel()
						outer.Close()
					} else {
						t.Close()
					}
				},
				Check: func(w *World, x *Exec) []Violation {
					vs := NoHang(x, "C17")
					if x.Hang {
						return vs
					}
					bad := func(rule, sig, d string) {
						vs = append(vs, Violation{Prop: "C17", Rule: rule, Sig: sig, Detail: d + "\n" + w.Outcome()})
					}
					want := omd.Copy()
					if want == nil {
						want = metadata.MD{}
					}
					want.Set("grpctunnel-negotiate", "on")
					for _, e := range w.EventsOf("handler:r4") {
						if e.Op == "ctx" && !strings.HasPrefix(e.Detail, "md={} ") {
							bad("request-metadata", "ident:request-metadata-leak", "an RPC without request metadata was handed: "+e.Detail)
						}
					}
					for _, id := range []string{"r1", "r2", "r3", "r6", "r7"} {
						var ctxEv *Event
						he := w.EventsOf("handler:" + id)
						for i, e := range he {
							if e.Op == "ctx" {
								ctxEv = &he[i]
							}
						}
						if ctxEv == nil {
							bad("handler-ran", "ident:handler-did-not-run", id)
							continue
						}
						d := ctxEv.Detail
						field := func(name, next string) string {
							i := strings.Index(d, name+"=")
							if i < 0 {
								return ""
							}
							s := d[i+len(name)+1:]
							if next != "" {
								if j := strings.Index(s, " "+next+"="); j >= 0 {
									s = s[:j]
								}
							}
							return s
						}
						if got := field("tunmd", "peer"); got != mdString(want)+"/true" {
							bad("tunnel-metadata", "ident:tunnel-metadata:"+id, fmt.Sprintf("handler %s: TunnelMetadataFromIncomingContext = %s, the tunnel was opened with %s", id, got, mdString(want)))
						}
						wantMD := metadata.Pairs("own", id)
						if id == "r6" {
							wantMD = metadata.Pairs("own", id, "own", "from-creds")
						}
						if got := field("md", "deadline"); got != mdString(wantMD) {
							bad("request-metadata", "ident:request-metadata:"+id, fmt.Sprintf("handler %s saw request metadata %s", id, got))
						}
						if mode == "F" {
							if got := field("peer", "ival"); got != DefaultPeer().Addr.String() {
								bad("peer", "ident:peer", fmt.Sprintf("handler %s: peer %q, the tunnel was opened from %s", id, got, DefaultPeer().Addr))
							}
							if got := field("ival", ""); got != "set-by-interceptor" {
								bad("interceptor-values", "ident:interceptor-value", fmt.Sprintf("handler %s: interceptor-set value %q", id, got))
							}
						}
						// caller side: channel identity
						wantCh := map[string]string{"F": "fwd:T", "R": "rev:T", "N": "fwd:inner"}[mode]
						for _, e := range w.EventsOf("caller:" + id) {
							switch e.Op {
							case "ctxchan":
								f := strings.Fields(e.Detail)
								if f[0] != wantCh {
									bad("channel-identity", "ident:context-channel", fmt.Sprintf("rpc %s: TunnelChannelFromContext = %s, carried by %s", id, f[0], wantCh))
								}
								if mode != "R" {
									if i := strings.Index(e.Detail, "outtunmd="); i < 0 || e.Detail[i+9:] != mdString(want) {
										bad("tunnel-metadata", "ident:outgoing-tunnel-metadata:"+id, fmt.Sprintf("rpc %s: TunnelMetadataFromOutgoingContext: %q, opened with %s", id, e.Detail, mdString(want)))
									}
								}
							case "targets":
								if !strings.Contains(e.Detail, "chT="+wantCh) {
									bad("channel-identity", "ident:option-channel", fmt.Sprintf("rpc %s: WithTunnelChannel target: %q, carried by %s", id, e.Detail, wantCh))
								}
							}
						}
					}
					for _, e := range w.EventsOf("caller:r5") {
						wantCh := map[string]string{"F": "fwd:T", "R": "rev:T", "N": "fwd:inner"}[mode]
						if e.Op == "targets" && !strings.Contains(e.Detail, "chT="+wantCh) {
							bad("channel-identity", "ident:option-channel-failed-rpc", fmt.Sprintf("failed unary rpc r5: WithTunnelChannel target: %q, carried by %s", e.Detail, wantCh))
						}
					}
					return dedupeViolations(vs)
				},
			})
		}
	}
	// several reverse tunnels: the reported channel is the one whose serving instance handled the RPC
	for _, nTun := range []int{2, 3} {
		nTun := nTun
		scs = append(scs, &Scenario{
			Name: fmt.Sprintf("c17/multi-reverse/%d", nTun), Prop: "C17",
			Desc: fmt.Sprintf("%d reverse tunnels to one handler; %d RPCs through the pooled channel with WithTunnelChannel and TunnelChannelFromContext; the reported channel must be the one whose serving instance ran the handler", nTun, nTun+1),
			Opt:  Options{Level: "io", Bound: bound},
			Run: func(w *World) {
				r := newRegWorld(w)
				for i := 0; i < nTun; i++ {
					r.open(string(rune('A'+i)), "")
				}
				var wls []Workload
				for i := 0; i <= nTun; i++ {
					wl := StdWorkload(fmt.Sprintf("m%d", i), byte(10+i), []string{"Unary", "Bidi"}[i%2], []int{3}, []int{3})
					wl.Call.ChanOpt = true
					wl.Call.Ops = append(wl.Call.Ops, COp{K: "targets"})
					if i == 2 {
						// a unary RPC that fails is still attributed to the channel that carried it
						wl.Handler.Ops = []HOp{{K: "recv"}, {K: "return", Code: codes.Aborted, Msg: "scripted"}}
					}
					wls = append(wls, wl)
				}
				t := &Tun{W: w, Conn: r.h.AsChannel()}
				w.Join(w.StartCallers(t, wls[:2])...)
				for i := 2; i < len(wls); i++ {
					w.Join(w.StartCallers(t, wls[i:i+1])...)
				}
				r.finish()
			},
			Check: func(w *World, x *Exec) []Violation {
				vs := NoHang(x, "C17")
				if x.Hang {
					return vs
				}
				for i := 0; i <= nTun; i++ {
					id := fmt.Sprintf("m%d", i)
					served := ""
					for _, e := range w.EventsOf("handler:" + id) {
						if e.Op == "invoked" {
							served = e.Detail[strings.Index(e.Detail, "@")+1:]
						}
					}
					for _, e := range w.EventsOf("caller:" + id) {
						if e.Op == "targets" && !strings.Contains(e.Detail, "chT="+served) {
							vs = append(vs, Violation{Prop: "C17", Rule: "channel-identity", Sig: "ident:option-channel-multi", Detail: fmt.Sprintf("rpc %s was served by %s but WithTunnelChannel reported %q\n%s", id, served, e.Detail, w.Outcome())})
						}
						if e.Op == "ctxchan" && strings.Fields(e.Detail)[0] != served {
							vs = append(vs, Violation{Prop: "C17", Rule: "channel-identity", Sig: "ident:context-channel-multi", Detail: fmt.Sprintf("rpc %s was served by %s but TunnelChannelFromContext reported %q\n%s", id, served, e.Detail, w.Outcome())})
						}
					}
				}
				return vs
			},
		})
	}
	return scs
}

func init() {
	register(&PropDef{ID: "C17", Level: "exploration",
		Rule:      "tunnel modes {forward, reverse, forward nested in forward} x opening metadata {absent, a:[1], a:[1,2] b-bin:[..]; absent and a:[1] from a context that also carries unrelated incoming metadata} with a peer and an interceptor-set context value; two concurrent RPCs whose handlers and callers mutate every map returned by TunnelMetadataFromIncomingContext / TunnelMetadataFromOutgoingContext / metadata.FromIncomingContext, then a third RPC, one without request metadata and a unary RPC that fails; 2-3 reverse tunnels behind one pooled channel with WithTunnelChannel and TunnelChannelFromContext; all schedules with <= 1 (quick) / 2 (thorough) deviations; oracle: accessor values equal the scripted opening values in every RPC before and after the mutations; reported channel == channel whose serving instance ran the handler",
		Scenarios: c17Scenarios})
}
