package harness

import (
	"context"
	"fmt"
	"strings"
	"time"

	"github.com/jhump/grpctunnel/verifrt"
	"google.golang.org/grpc"
	"google.golang.org/grpc/metadata"
	"google.golang.org/protobuf/types/known/wrapperspb"
)

// c15: concurrent use of the exported API, at the granularity of every synchronisation
// operation of the library ("sync" level). Decided here: no panic, no deadlock, no
// atomicity violation visible to the MSG / META oracles, in any schedule within the bound.

// splitRPC runs one Bidi RPC with its send side and its receive side on different
// goroutines (the concurrency gRPC allows on a single stream), plus a third goroutine that
// reads Header() concurrently.
func splitRPC(w *World, conn grpc.ClientConnInterface, id string, tag byte, sizes []int) []*verifrt.Thread {
	actor := "caller:" + id
	ctx, cancel := context.WithCancel(context.Background())
	w.registerCancel(id, cancel)
	ctx = metadata.NewOutgoingContext(ctx, metadata.Pairs(ScriptKey, id))
	full, sd := methodDesc("Bidi")
	cs, err := conn.NewStream(ctx, sd, full)
	em, ec := errFields(err)
	w.Log(Event{Actor: actor, Op: "new", Err: em, Code: ec})
	if err != nil {
		cancel()
		return nil
	}
	snd := w.Go(actor+":send", true, func() {
		for i, sz := range sizes {
			w.Point("c:" + id + ":send")
			m := MakeMsg(tag, 0, i, sz)
			w.Log(Event{Actor: actor, Op: "send-begin", Idx: i, Detail: "m=" + MsgIdent(m)})
			err := cs.SendMsg(m)
			em, ec := errFields(err)
			w.Log(Event{Actor: actor, Op: "send", Idx: i, Err: em, Code: ec, Detail: "m=" + MsgIdent(m)})
		}
		w.Point("c:" + id + ":closesend")
		err := cs.CloseSend()
		em, ec := errFields(err)
		w.Log(Event{Actor: actor, Op: "closesend", Err: em, Code: ec})
	})
	rcv := w.Go(actor+":recv", true, func() {
		for i := 0; ; i++ {
			w.Point("c:" + id + ":recv")
			m := &wrapperspb.BytesValue{}
			w.Log(Event{Actor: actor, Op: "recv-begin", Idx: i})
			err := cs.RecvMsg(m)
			em, ec := errFields(err)
			d := errDetail(err)
			if err == nil {
				d = "m=" + MsgIdent(m)
			}
			w.Log(Event{Actor: actor, Op: "recv", Idx: i, Err: em, Code: ec, Detail: d})
			if err != nil {
				break
			}
		}
		w.Log(Event{Actor: actor, Op: "trailer", Detail: mdString(cs.Trailer())})
		cancel()
	})
	hdr := w.Go(actor+":header", true, func() {
		w.Point("c:" + id + ":header")
		h, err := cs.Header()
		em, ec := errFields(err)
		w.Log(Event{Actor: actor, Op: "header", Err: em, Code: ec, Detail: mdString(h)})
	})
	return []*verifrt.Thread{snd, rcv, hdr}
}

func c15Scenarios(tier string) []*Scenario {
	var scs []*Scenario
	bound := 1
	if tier == "thorough" {
		bound = 2
	}
	hmd, tmd := metadata.Pairs("h", "1"), metadata.Pairs("t", "1")
	echo := func(id string, tag byte, n int) *HandlerScript {
		hs := &HandlerScript{ID: id, Tag: tag, Ops: []HOp{{K: "sethdr", MD: hmd}, {K: "settrl", MD: tmd}}}
		for i := 0; i < n; i++ {
			hs.Ops = append(hs.Ops, HOp{K: "recv"}, HOp{K: "send", Size: 16385})
		}
		hs.Ops = append(hs.Ops, HOp{K: "recvall"}, HOp{K: "return"})
		return hs
	}
	type prog struct {
		name string
		desc string
		rev  []bool
		run  func(w *World, t *Tun)
		chk  func(w *World, x *Exec) []Violation
	}
	splitCheck := func(ids ...string) func(w *World, x *Exec) []Violation {
		return func(w *World, x *Exec) []Violation {
			var vs []Violation
			vs = append(vs, msgOracle(w, "C15", ids)...)
			for _, id := range ids {
				ex := metaExpect{id: id, header: hmd, trailer: tmd, nResp: 2, checkHdr: true}
				for _, v := range metaOracle(w, x, ex, "") {
					v.Prop = "C15"
					v.Sig = "conc:" + v.Sig
					vs = append(vs, v)
				}
			}
			return vs
		}
	}
	progs := []prog{
		{name: "send||recv||header", desc: "one Bidi RPC whose sends, receives and Header() run on three goroutines", rev: []bool{false, true},
			run: func(w *World, t *Tun) {
				w.Scripts["r1"] = echo("r1", 1, 2)
				w.Join(splitRPC(w, t.Conn, "r1", 1, []int{3, 16385})...)
			}, chk: splitCheck("r1")},
		{name: "2x(send||recv)", desc: "two Bidi RPCs, each with its send and receive sides on different goroutines", rev: []bool{false},
			run: func(w *World, t *Tun) {
				w.Scripts["r1"], w.Scripts["r2"] = echo("r1", 1, 2), echo("r2", 2, 2)
				a := splitRPC(w, t.Conn, "r1", 1, []int{3, 3})
				b := splitRPC(w, t.Conn, "r2", 2, []int{16385, 3})
				w.Join(append(a, b...)...)
			}, chk: splitCheck("r1", "r2")},
		{name: "rpcs||close", desc: "a unary and a bidi RPC run while another goroutine closes the channel", rev: []bool{false, true},
			run: func(w *World, t *Tun) {
				wls := []Workload{StdWorkload("r1", 1, "Unary", []int{3}, []int{3}), StdWorkload("r2", 2, "Bidi", []int{3}, []int{3})}
				ths := w.StartCallers(t, wls)
				closer := w.Go("closer", true, func() {
					w.Point("env:close")
					w.Log(Event{Actor: "fault", Op: "app-close"})
					t.Ch.Close()
					w.Point("env:err")
					_ = t.Ch.Err()
					select {
					case <-t.Ch.Done():
					default:
					}
				})
				w.Join(append(ths, closer)...)
			}, chk: func(w *World, x *Exec) []Violation { return msgOracle(w, "C15", []string{"r1", "r2"}) }},
		{name: "rpcs||stop||gracefulstop", desc: "RPCs on a reverse tunnel run while two other goroutines call GracefulStop and Stop", rev: []bool{true},
			run: func(w *World, t *Tun) {
				wls := []Workload{StdWorkload("r1", 1, "Unary", []int{3}, []int{3}), StdWorkload("r2", 2, "Bidi", []int{3}, []int{3})}
				ths := w.StartCallers(t, wls)
				g := w.Go("gstopper", true, func() { w.Point("env:gstop"); w.Log(Event{Actor: "fault", Op: "app-gstop"}); t.RevSrv.GracefulStop() })
				s := w.Go("stopper", true, func() { w.Point("env:stop"); w.Log(Event{Actor: "fault", Op: "app-stop"}); t.RevSrv.Stop() })
				w.Join(append(ths, g, s)...)
			}, chk: func(w *World, x *Exec) []Violation { return msgOracle(w, "C15", []string{"r1", "r2"}) }},
		{name: "blocked-handler-send||cancel||rpc", desc: "a handler is parked in SendMsg on an exhausted flow-control window while its RPC is cancelled from another goroutine; a unary RPC on the same tunnel must still run", rev: []bool{false, true},
			run: func(w *World, t *Tun) {
				d := StdWorkload("r1", 1, "ServerStream", []int{3}, nil)
				d.Call.Ops = []COp{{K: "new"}, {K: "send", Size: 3}, {K: "closesend"}, {K: "waitdone"}}
				d.Handler.Ops = []HOp{{K: "recv"}, {K: "send", Size: 100000}, {K: "return"}}
				d.Handler.KeepGoing = true
				ths := w.StartCallers(t, []Workload{d})
				w.StartFault(t, "cancel:r1")
				w.Join(ths...)
				w.Join(w.StartCallers(t, []Workload{StdWorkload("r2", 2, "Unary", []int{3}, []int{3})})...)
			}, chk: func(w *World, x *Exec) []Violation {
				return completeOK(w, "C15", StdWorkload("r2", 2, "Unary", []int{3}, []int{3}))
			}},
		{name: "stalled-stream||cancel||rpc", desc: "a caller that never reads lets responses pile up (without flow control the receive loop ends up parked handing one over) while its RPC is cancelled from another goroutine and abandoned; a unary RPC on the same tunnel must still run", rev: []bool{false, true},
			run: func(w *World, t *Tun) {
				d := StdWorkload("r1", 1, "ServerStream", []int{3}, nil)
				d.Call.Ops = []COp{{K: "new"}, {K: "send", Size: 3}, {K: "closesend"}, {K: "waitfault", D: 3 * time.Second}}
				d.Handler.Ops = []HOp{{K: "recv"}, {K: "send", Size: 3}, {K: "send", Size: 3}, {K: "send", Size: 3}, {K: "send", Size: 3}, {K: "waitctx"}, {K: "return"}}
				d.Handler.KeepGoing = true
				ths := w.StartCallers(t, []Workload{d})
				w.StartFault(t, "cancel:r1")
				w.Join(ths...)
				w.Join(w.StartCallers(t, []Workload{StdWorkload("r2", 2, "Unary", []int{3}, []int{3})})...)
			}, chk: func(w *World, x *Exec) []Violation {
				return completeOK(w, "C15", StdWorkload("r2", 2, "Unary", []int{3}, []int{3}))
			}},
		{name: "queries||open||rpc", desc: "registry queries (Ready, AllReverseTunnels, WaitForReady) from one goroutine while an RPC runs and a second reverse tunnel is opened", rev: []bool{true},
			run: func(w *World, t *Tun) {
				q := w.Go("query", true, func() {
					for i := 0; i < 2; i++ {
						w.Point("q:ready")
						_ = t.Handler.AsChannel().Ready()
						_ = len(t.Handler.AllReverseTunnels())
						_ = t.Handler.KeyAsChannel(nil).WaitForReady(context.Background())
					}
				})
				ths := w.StartCallers(t, []Workload{StdWorkload("r1", 1, "Unary", []int{3}, []int{3})})
				t2 := w.OpenTunnel(TunCfg{Reverse: true, Handler: t.Handler, Net: t.Net, Label: "U"})
				w.Join(append(ths, q)...)
				w.Drain()
				t2.RevSrv.Stop()
				t2.AwaitEnd()
				t2.Cancel()
			}, chk: func(w *World, x *Exec) []Violation { return msgOracle(w, "C15", []string{"r1"}) }},
	}
	for _, p := range progs {
		for _, rev := range p.rev {
			for _, noFC := range []bool{false, true} {
				for _, revOrder := range []bool{false, true} {
					p, rev, noFC, revOrder := p, rev, noFC, revOrder
					if noFC && p.name != "send||recv||header" && p.name != "rpcs||close" && p.name != "stalled-stream||cancel||rpc" {
						continue
					}
					if !noFC && p.name == "stalled-stream||cancel||rpc" && rev {
						continue
					}
					cfgs := []TunCfg{{Reverse: rev, ServerNoFC: noFC}}
					if !noFC && !rev && (p.name == "send||recv||header" || p.name == "2x(send||recv)") {
						// the same on a carrier that holds one frame per direction: every send of the
						// library can be held up by the transport
						cfgs = append(cfgs, TunCfg{Cap: 1})
					}
					for _, cfg := range cfgs {
						cfg := cfg
						scs = append(scs, &Scenario{
							Name: fmt.Sprintf("c15/%s/%s/rev=%v", cfg, p.name, revOrder), Prop: "C15", Heavy: true,
							Desc: fmt.Sprintf("%s on a %s tunnel; every lock, atomic, condition, wait-group and channel operation of the library is a scheduling point; <= %d deviations", p.desc, cfg, bound),
							Opt:  Options{Level: "sync", Bound: bound, RevOrder: revOrder},
							Run: func(w *World) {
								t := w.OpenTunnel(cfg)
								if t.StartErr != nil {
									return
								}
								p.run(w, t)
								t.Close()
							},
							Check: func(w *World, x *Exec) []Violation {
								vs := NoHang(x, "C15")
								if x.Hang {
									vs[0].Sig = "conc:" + vs[0].Sig
									return vs
								}
								vs = append(vs, p.chk(w, x)...)
								vs = append(vs, NoLeak(w, x, "C15")...)
								return vs
							},
						})
					}
				}
			}
		}
	}
	// "... without deadlocks": bidirectional bulk traffic on carriers that hold one frame per
	// direction (the flow-control workloads of C05 with back-pressure both ways), judged here for
	// deadlock only
	for _, sc := range c05TunnelScenarios(tier) {
		if !strings.Contains(sc.Name, "/cap1/CS+SS") {
			continue
		}
		c := *sc
		c.Name, c.Prop = "c15/backpressure/"+strings.TrimPrefix(sc.Name, "c05/tunnel/"), "C15"
		c.Check = func(w *World, x *Exec) []Violation {
			vs := NoHang(x, "C15")
			if x.Hang {
				vs[0].Sig = "conc:" + vs[0].Sig
			}
			return vs
		}
		scs = append(scs, &c)
	}
	return scs
}

func init() {
	register(&PropDef{ID: "C15", Level: "model_checking",
		Rule:        "concurrent API programs (send || recv || Header on one RPC; two such RPCs; a handler parked in a window-limited send || cancel || another RPC; RPCs || Close/Err/Done; RPCs || GracefulStop || Stop; registry queries || tunnel open || RPC), forward and reverse, flow control and revision zero, with EVERY lock, atomic, condition, wait-group and channel operation of the library as a scheduling point; all schedules with <= 1 (quick) / 2 (thorough) deviations around two default-scheduler families; decided: no panic, no deadlock/hang, no atomicity violation visible to the message and metadata oracles, nothing left behind. the split-RPC programs also on a carrier that holds one frame per direction. The literal data-race clause (Go memory model) is not decidable by schedule enumeration; it is covered by the separate free-running race-detector pass (coverage.race_pass; sampling, see DESIGN.md 3.C15)",
		Assumptions: []string{"by Go's DRF-SC guarantee the sequentially consistent interleavings at synchronisation granularity enumerated here are all behaviours of the program only if it is data-race free; data-race freedom itself is sampled by the race pass, not enumerated"},
		Globals:     []func(*Scenario, *World, *Exec) []Violation{ProtoMonitor},
		Scenarios:   c15Scenarios})
}
