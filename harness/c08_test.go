package harness

import (
	"context"
	"errors"
	"fmt"
	"math"
	"strings"

	"github.com/jhump/grpctunnel/tunnelpb"
	"github.com/jhump/grpctunnel/verifrt"
)

type failingCreds struct{}

func (failingCreds) GetRequestMetadata(ctx context.Context, uri ...string) (map[string]string, error) {
	return nil, errors.New("credentials unavailable")
}
func (failingCreds) RequireTransportSecurity() bool { return false }

// yieldingCreds succeed, but like real token sources they take a while: there is a scheduling
// point inside GetRequestMetadata, so other goroutines can start RPCs in the meantime.
type yieldingCreds struct{}

func (yieldingCreds) GetRequestMetadata(ctx context.Context, uri ...string) (map[string]string, error) {
	verifrt.Yield("app", "creds:get", nil, nil)
	return map[string]string{"authorization": "tok"}, nil
}
func (yieldingCreds) RequireTransportSecurity() bool { return false }

// idsOracle: every started RPC results in at most one invocation of exactly the named
// handler, exactly one when the call ran to completion; no handler runs twice.
func idsOracle(w *World, x *Exec, wls []Workload) []Violation {
	var vs []Violation
	bad := func(rule, sig, d string) {
		vs = append(vs, Violation{Prop: "C08", Rule: rule, Sig: sig, Detail: d + "\n" + w.Outcome()})
	}
	inv := map[string][]string{}
	for _, e := range w.Events {
		if e.Op == "invoked" && strings.HasPrefix(e.Actor, "handler:") {
			inv[strings.TrimPrefix(e.Actor, "handler:")] = append(inv[strings.TrimPrefix(e.Actor, "handler:")], e.Detail)
		}
	}
	for _, wl := range wls {
		id := wl.Call.ID
		n := len(inv[id])
		if n > 1 {
			bad("one-invocation-per-rpc", "ids:handler-invoked-twice", fmt.Sprintf("rpc %s: handler invoked %d times", id, n))
		}
		for _, d := range inv[id] {
			if !strings.HasPrefix(d, wl.Call.Method+"@") {
				bad("named-handler", "ids:wrong-handler", fmt.Sprintf("rpc %s for method %s ran handler %s", id, wl.Call.Method, d))
			}
		}
		completed := false
		for _, e := range w.EventsOf("caller:" + id) {
			if (e.Op == "invoke" && e.OK()) || (e.Op == "recv" && e.Code == "EOF") {
				completed = true
			}
		}
		if completed && n != 1 {
			bad("one-invocation-per-rpc", "ids:completed-without-one-invocation", fmt.Sprintf("rpc %s completed OK with %d handler invocations", id, n))
		}
	}
	for id := range inv {
		found := false
		for _, wl := range wls {
			if wl.Call.ID == id {
				found = true
			}
		}
		if !found {
			bad("no-phantom-invocation", "ids:phantom-handler", fmt.Sprintf("handler %s ran but no such RPC was started", id))
		}
	}
	return vs
}

func c08Scenarios(tier string) []*Scenario {
	var scs []*Scenario
	thorough := tier == "thorough"
	focus := []string{"newStream", "allocateStream", "removeStream", "Send", "SendMsg", "getStream", "createStream", "serve", "recvLoop", "cancelStream", "finishStream"}
	type prog struct {
		name    string
		callers [][]Workload // per caller thread: RPCs started in sequence
	}
	u := func(id string, tag byte) Workload { return StdWorkload(id, tag, "Unary", []int{3}, []int{3}) }
	b := func(id string, tag byte) Workload { return StdWorkload(id, tag, "Bidi", []int{3}, []int{3}) }
	ss := func(id string, tag byte) Workload { return StdWorkload(id, tag, "ServerStream", []int{3}, []int{3, 3}) }
	failing := func(id string, tag byte) Workload {
		wl := u(id, tag)
		wl.Call.Creds = failingCreds{}
		return wl
	}
	slow := func(wl Workload) Workload {
		wl.Call.Creds = yieldingCreds{}
		return wl
	}
	precancelled := func(id string, tag byte) Workload {
		wl := b(id, tag)
		wl.Call.PreCancel = true
		return wl
	}
	progs := []prog{
		{"2x1:U+precancelled", [][]Workload{{u("a1", 1)}, {precancelled("b1", 2)}}},
		{"1x2:precancelled+U", [][]Workload{{precancelled("a1", 1), u("a2", 2)}}},
		{"2x1:U+B", [][]Workload{{u("a1", 1)}, {b("b1", 2)}}},
		{"2x1:U+fail", [][]Workload{{u("a1", 1)}, {failing("b1", 2)}}},
		{"2x2:UB+SSU", [][]Workload{{u("a1", 1), b("a2", 2)}, {ss("b1", 3), u("b2", 4)}}},
		{"3x1:U+B+SS", [][]Workload{{u("a1", 1)}, {b("b1", 2)}, {ss("c1", 3)}}},
		{"3x1:U+fail+B", [][]Workload{{u("a1", 1)}, {failing("b1", 2)}, {b("c1", 3)}}},
		{"2x1:Ucreds+U", [][]Workload{{slow(u("a1", 1))}, {u("b1", 2)}}},
		{"2x1:Bcreds+Bcreds", [][]Workload{{slow(b("a1", 1))}, {slow(b("b1", 2))}}},
		{"2x2:UcredsU+BSScreds", [][]Workload{{slow(u("a1", 1)), u("a2", 2)}, {b("b1", 3), slow(ss("b2", 4))}}},
	}
	// raw client id histories
	ids := []int64{-1, 0, 1, 2, 5}
	var alpha []c2sFrame
	m := msgBytes(7, 0, 0, 3)
	for _, id := range ids {
		id := id
		alpha = append(alpha,
			c2sFrame{fmt.Sprintf("N%d", id), func() *tunnelpb.ClientToServer { return fNew(id, "/verif.T/Bidi", 1, 65536, fmt.Sprintf("s%d", id)) }},
			c2sFrame{fmt.Sprintf("M%d", id), func() *tunnelpb.ClientToServer { return fReq(id, uint32(len(m)), m) }},
			c2sFrame{fmt.Sprintf("H%d", id), func() *tunnelpb.ClientToServer { return fHalf(id) }},
			c2sFrame{fmt.Sprintf("C%d", id), func() *tunnelpb.ClientToServer { return fCancel(id) }},
		)
	}
	maxLen := 3
	if thorough {
		maxLen = 4
	}
	var gen func(cur []int)
	gen = func(cur []int) {
		if len(cur) > 0 {
			var fr []c2sFrame
			var nm []string
			for _, i := range cur {
				fr = append(fr, alpha[i])
				nm = append(nm, alpha[i].name)
			}
			scs = append(scs, c09ServerScenario("C08", "c08/raw/"+strings.Join(nm, ","), fr, true, Options{Level: "io", Bound: 0}))
		}
		if len(cur) == maxLen {
			return
		}
		for i := range alpha {
			gen(append(cur, i))
		}
	}
	gen(nil)
	// the largest identifier: after it every identifier is "not greater than all seen"
	big := int64(math.MaxInt64)
	alphaBig := append([]c2sFrame{}, alpha...)
	for _, id := range []int64{big, big - 1} {
		id := id
		alphaBig = append(alphaBig,
			c2sFrame{fmt.Sprintf("N%d", id), func() *tunnelpb.ClientToServer { return fNew(id, "/verif.T/Bidi", 1, 65536, "smax") }},
			c2sFrame{fmt.Sprintf("H%d", id), func() *tunnelpb.ClientToServer { return fHalf(id) }},
			c2sFrame{fmt.Sprintf("C%d", id), func() *tunnelpb.ClientToServer { return fCancel(id) }},
		)
	}
	nmax := alphaBig[len(alpha)]
	for i := range alphaBig {
		scs = append(scs, c09ServerScenario("C08", "c08/raw/max/"+nmax.name+","+alphaBig[i].name, []c2sFrame{nmax, alphaBig[i]}, true, Options{Level: "io", Bound: 0}))
		for j := range alphaBig {
			fr := []c2sFrame{nmax, alphaBig[i], alphaBig[j]}
			scs = append(scs, c09ServerScenario("C08", "c08/raw/max/"+nmax.name+","+alphaBig[i].name+","+alphaBig[j].name, fr, true, Options{Level: "io", Bound: 0}))
			if i < 4 {
				// ... and reached after an ordinary stream
				fr2 := []c2sFrame{alpha[4*2], nmax, alphaBig[i], alphaBig[j]}
				scs = append(scs, c09ServerScenario("C08", "c08/raw/max/N1,"+nmax.name+","+alphaBig[i].name+","+alphaBig[j].name, fr2, true, Options{Level: "io", Bound: 0}))
			}
		}
	}
	for _, cfg := range []TunCfg{{}, {Reverse: true}} {
		for _, p := range progs {
			for _, withClose := range []bool{false, true} {
				cfg, p, withClose := cfg, p, withClose
				if withClose && p.name != "2x1:U+B" && p.name != "3x1:U+B+SS" {
					continue
				}
				bound := 1
				if strings.HasPrefix(p.name, "2x1") {
					bound = 2
				}
				if thorough {
					bound++
				}
				var all []Workload
				for _, c := range p.callers {
					all = append(all, c...)
				}
				scs = append(scs, &Scenario{
					Name: fmt.Sprintf("c08/conc/%s/%s/close=%v", cfg, p.name, withClose), Prop: "C08",
					Desc:  fmt.Sprintf("%d goroutines start RPCs concurrently (%s) on a %s tunnel (channel closed concurrently: %v); every lock/atomic/channel operation in stream creation, id allocation and the send path is a scheduling point; <= %d deviations", len(p.callers), p.name, cfg, withClose, bound),
					Opt:   Options{Level: "focus", Focus: focus, Bound: bound},
					Heavy: true,
					Run: func(w *World) {
						t := w.OpenTunnel(cfg)
						if t.StartErr != nil {
							return
						}
						for i := range all {
							hs := all[i].Handler
							w.Scripts[hs.ID] = &hs
						}
						var ths []*verifrt.Thread
						for ci, seq := range p.callers {
							seq := seq
							ths = append(ths, w.Go(fmt.Sprintf("caller:t%d", ci), true, func() {
								for i := range seq {
									spec := seq[i].Call
									w.RunCall(t.Conn, &spec)
								}
							}))
						}
						if withClose {
							w.StartFault(t, "chclose")
						}
						w.Join(ths...)
						t.Close()
					},
					Check: func(w *World, x *Exec) []Violation {
						vs := NoHang(x, "C08")
						if x.Hang {
							return vs
						}
						vs = append(vs, idsOracle(w, x, all)...)
						if !withClose {
							for _, wl := range all {
								if _, fails := wl.Call.Creds.(failingCreds); fails || wl.Call.PreCancel {
									continue
								}
								vs = append(vs, completeOK(w, "C08", wl)...)
							}
						}
						return vs
					},
				})
			}
		}
	}
	return scs
}

func init() {
	register(&PropDef{ID: "C08", Level: "model_checking",
		Rule:      "(concurrent creation) 2-3 goroutines starting 1-2 RPCs each (mixed shapes, one failing in its credentials, some with per-RPC credentials that yield inside GetRequestMetadata, one whose context is already cancelled when it starts, optionally racing a channel close), forward and reverse, with every lock/atomic/channel operation of stream creation, id allocation and the thread-safe send wrappers as a scheduling point, all schedules with <= 1 deviation (<= 2 for the two-goroutine programs) at quick, one more at thorough; oracle: ids strictly increasing on the wire, each id starts with new_stream (protocol monitor), each RPC gets at most one invocation of exactly its handler and exactly one when it completes; (raw histories) every sequence of length <= 3 (quick) / 4 (thorough) over {new_stream, request, half_close, cancel} x ids {-1,0,1,2,5} against the reference id rules, plus every history of length <= 2 over that alphabet extended by ids MaxInt64 and MaxInt64-1 that follows new_stream(MaxInt64) (id not greater than all seen => tunnel ends with an error; frames for finished ids ignored)",
		Globals:   []func(*Scenario, *World, *Exec) []Violation{ProtoMonitor},
		Scenarios: c08Scenarios})
}
