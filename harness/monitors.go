package harness

import (
	"fmt"
	"strings"

	"github.com/jhump/grpctunnel/tunnelpb"
)

const (
	protoWindow = 65536
	protoChunk  = 16384
)

// tunnelStreamInfo is what the protocol monitor knows about one tunnelled stream.
type tunnelStreamInfo struct {
	id        int64
	script    string
	newSeq    int
	newDeliv  int
	rev       tunnelpb.ProtocolRevision
	reqLeft   int // bytes of the current request message still to come (-1: none open)
	respLeft  int
	halfClose int
	cancel    int
	closes    int
	closeSeq  int
	closeBy   string
	headers   int
	respData  bool
	afterCls  []string
}

// carrierMeta reports whether the tunnel on this carrier stream negotiated settings, and
// which proto type travels client->server on the carrier (forward: ClientToServer).
func carrierNegotiated(ms *MStream) bool {
	// both the request metadata and the response headers carried the negotiate key (as
	// seen by the endpoints, i.e. after any stripping)
	return ms.negReq && ms.negResp
}

// ProtoMonitor checks every frame emitted on every carrier stream of the execution against
// the documented protocol (property C13). Frames emitted by scripted raw peers are
// excluded by the scenario through w.Vals["raw:<stream>:c2s"/"s2c"].
func ProtoMonitor(sc *Scenario, w *World, x *Exec) []Violation {
	var vs []Violation
	bad := func(rule, sig, detail string) {
		vs = append(vs, Violation{Prop: "C13", Rule: rule, Sig: sig, Detail: detail})
	}
	for _, n := range w.Nets {
		for _, ms := range n.Streams {
			frames := w.Tap.TunnelFrames(ms.Name)
			if len(frames) == 0 {
				continue
			}
			rawClient := w.Vals["raw:"+ms.Name+":client"] != nil // frames of type ClientToServer come from a script
			rawServer := w.Vals["raw:"+ms.Name+":server"] != nil || w.Vals["rawserver-net:"+ms.net.Label] != nil
			neg := carrierNegotiated(ms)
			streams := map[int64]*tunnelStreamInfo{}
			var lastNew int64 = -1 << 62
			firstS2C := true
			settings := 0
			// teardown mark: first note that starts the end of the carrier stream
			teardown := 1 << 60
			for _, f := range w.Tap.Frames {
				if f.Stream == ms.Name && f.Note != "" && f.Seq < teardown {
					switch {
					case f.Note == "c.closesend", f.Note == "break", f.Note == "cancel-propagated", f.Note == "client-abort", f.Note == "server-abort", strings.HasPrefix(f.Note, "handler-returned"):
						teardown = f.Seq
					}
				}
			}
			for _, f := range frames {
				switch m := f.Msg.(type) {
				case *tunnelpb.ClientToServer:
					if rawClient {
						// still track stream creation so that server frames can be judged
						if ns, ok := m.Frame.(*tunnelpb.ClientToServer_NewStream); ok {
							if _, dup := streams[m.StreamId]; !dup {
								streams[m.StreamId] = &tunnelStreamInfo{id: m.StreamId, newSeq: f.Seq, newDeliv: f.Deliv, rev: ns.NewStream.ProtocolRevision, reqLeft: -1, respLeft: -1, script: scriptOf(ns.NewStream)}
							}
						}
						continue
					}
					st := streams[m.StreamId]
					if ns, ok := m.Frame.(*tunnelpb.ClientToServer_NewStream); ok {
						if st != nil {
							bad("one-new-stream-per-id", "c2s:duplicate-new-stream", fmt.Sprintf("%s: second new_stream for id %d", ms.Name, m.StreamId))
						}
						if m.StreamId <= lastNew {
							bad("ids-strictly-increasing", "c2s:id-not-increasing", fmt.Sprintf("%s: new_stream id %d after %d", ms.Name, m.StreamId, lastNew))
						}
						lastNew = m.StreamId
						if !neg && (ns.NewStream.ProtocolRevision != 0) {
							bad("revision-zero-without-negotiation", "c2s:revision-without-negotiation", fmt.Sprintf("%s: new_stream id %d uses revision %d on a tunnel that did not negotiate", ms.Name, m.StreamId, ns.NewStream.ProtocolRevision))
						}
						streams[m.StreamId] = &tunnelStreamInfo{id: m.StreamId, newSeq: f.Seq, newDeliv: f.Deliv, rev: ns.NewStream.ProtocolRevision, reqLeft: -1, respLeft: -1, script: scriptOf(ns.NewStream)}
						continue
					}
					if st == nil {
						bad("first-frame-is-new-stream", "c2s:frame-before-new-stream", fmt.Sprintf("%s: %s before new_stream", ms.Name, FrameString(f)))
						continue
					}
					switch fr := m.Frame.(type) {
					case *tunnelpb.ClientToServer_RequestMessage:
						if st.halfClose > 0 {
							bad("no-data-after-half-close", "c2s:data-after-half-close", fmt.Sprintf("%s: %s", ms.Name, FrameString(f)))
						}
						if st.reqLeft > 0 {
							bad("message-contiguous", "c2s:envelope-inside-message", fmt.Sprintf("%s: %s while %d bytes of the previous message are outstanding", ms.Name, FrameString(f), st.reqLeft))
						}
						if f.DataLen > protoChunk {
							bad("chunk-at-most-16k", "c2s:chunk-too-large", fmt.Sprintf("%s: %s", ms.Name, FrameString(f)))
						}
						st.reqLeft = int(fr.RequestMessage.Size) - f.DataLen
						if st.reqLeft < 0 {
							bad("chunks-sum-to-size", "c2s:more-data-than-size", fmt.Sprintf("%s: %s", ms.Name, FrameString(f)))
						}
					case *tunnelpb.ClientToServer_MoreRequestData:
						if st.halfClose > 0 {
							bad("no-data-after-half-close", "c2s:data-after-half-close", fmt.Sprintf("%s: %s", ms.Name, FrameString(f)))
						}
						if st.reqLeft <= 0 {
							bad("chunks-sum-to-size", "c2s:continuation-without-envelope", fmt.Sprintf("%s: %s", ms.Name, FrameString(f)))
						}
						if f.DataLen > protoChunk {
							bad("chunk-at-most-16k", "c2s:chunk-too-large", fmt.Sprintf("%s: %s", ms.Name, FrameString(f)))
						}
						st.reqLeft -= f.DataLen
						if st.reqLeft < 0 {
							bad("chunks-sum-to-size", "c2s:more-data-than-size", fmt.Sprintf("%s: %s", ms.Name, FrameString(f)))
						}
					case *tunnelpb.ClientToServer_HalfClose:
						st.halfClose++
						if st.halfClose > 1 {
							bad("half-close-at-most-once", "c2s:second-half-close", fmt.Sprintf("%s: id %d", ms.Name, m.StreamId))
						}
						if st.reqLeft > 0 && !callerSendFailed(w, st.script, f.Step) {
							bad("message-contiguous", "c2s:half-close-inside-message", fmt.Sprintf("%s: id %d with %d bytes outstanding", ms.Name, m.StreamId, st.reqLeft))
						}
					case *tunnelpb.ClientToServer_Cancel:
						st.cancel++
						if st.cancel > 1 {
							bad("cancel-at-most-once", "c2s:second-cancel", fmt.Sprintf("%s: id %d", ms.Name, m.StreamId))
						}
					case *tunnelpb.ClientToServer_WindowUpdate:
						if !neg || st.rev == 0 {
							bad("no-window-update-in-revision-zero", "c2s:window-update-rev0", fmt.Sprintf("%s: %s", ms.Name, FrameString(f)))
						}
					case nil:
						bad("frame-has-a-kind", "c2s:empty-frame", fmt.Sprintf("%s: id %d", ms.Name, m.StreamId))
					}
				case *tunnelpb.ServerToClient:
					if rawServer {
						continue
					}
					if _, ok := m.Frame.(*tunnelpb.ServerToClient_Settings); ok {
						settings++
						if !neg {
							bad("settings-only-when-negotiated", "s2c:settings-without-negotiation", fmt.Sprintf("%s: %s", ms.Name, FrameString(f)))
						}
						// (a scripted peer that opens streams without waiting for the settings frame
						// breaks the protocol first; the order of the server's answers to it is then
						// not constrained)
						if !firstS2C && !rawClient {
							bad("settings-first", "s2c:settings-not-first", fmt.Sprintf("%s: %s is not the first server frame", ms.Name, FrameString(f)))
						}
						if m.StreamId != -1 {
							bad("settings-id-minus-one", "s2c:settings-bad-id", fmt.Sprintf("%s: %s", ms.Name, FrameString(f)))
						}
						if settings > 1 {
							bad("settings-once", "s2c:second-settings", ms.Name)
						}
						firstS2C = false
						continue
					}
					if firstS2C && neg && !rawClient {
						bad("settings-first", "s2c:frame-before-settings", fmt.Sprintf("%s: %s precedes the settings frame", ms.Name, FrameString(f)))
					}
					firstS2C = false
					st := streams[m.StreamId]
					if st == nil {
						bad("server-frames-refer-to-known-streams", "s2c:unknown-stream", fmt.Sprintf("%s: %s", ms.Name, FrameString(f)))
						continue
					}
					if st.closes > 0 {
						st.afterCls = append(st.afterCls, FrameString(f))
					}
					switch fr := m.Frame.(type) {
					case *tunnelpb.ServerToClient_ResponseHeaders:
						if st.closes > 0 {
							// "a message with the close_stream field concludes the stream": whoever
							// ended it, response headers cannot follow the close frame
							bad("headers-before-close", "s2c:headers-after-close", fmt.Sprintf("%s: id %d: response_headers emitted after the stream's close frame", ms.Name, m.StreamId))
						}
						st.headers++
						if st.headers > 1 {
							bad("headers-at-most-once", "s2c:second-headers", fmt.Sprintf("%s: id %d", ms.Name, m.StreamId))
						}
						if st.respData {
							bad("headers-before-messages", "s2c:headers-after-message", fmt.Sprintf("%s: id %d", ms.Name, m.StreamId))
						}
					case *tunnelpb.ServerToClient_ResponseMessage:
						st.respData = true
						if st.respLeft > 0 {
							bad("message-contiguous", "s2c:envelope-inside-message", fmt.Sprintf("%s: %s while %d bytes outstanding", ms.Name, FrameString(f), st.respLeft))
						}
						if f.DataLen > protoChunk {
							bad("chunk-at-most-16k", "s2c:chunk-too-large", fmt.Sprintf("%s: %s", ms.Name, FrameString(f)))
						}
						st.respLeft = int(fr.ResponseMessage.Size) - f.DataLen
						if st.respLeft < 0 {
							bad("chunks-sum-to-size", "s2c:more-data-than-size", fmt.Sprintf("%s: %s", ms.Name, FrameString(f)))
						}
					case *tunnelpb.ServerToClient_MoreResponseData:
						st.respData = true
						if st.closes > 0 && st.respLeft > 0 {
							// the continuation frames of a message are contiguous within their stream:
							// the stream's close frame was emitted in the middle of this message
							bad("message-contiguous", "s2c:close-inside-message", fmt.Sprintf("%s: id %d: %s continues a message across the stream's close frame (%d bytes were outstanding)", ms.Name, m.StreamId, FrameString(f), st.respLeft))
						}
						if st.respLeft <= 0 {
							bad("chunks-sum-to-size", "s2c:continuation-without-envelope", fmt.Sprintf("%s: %s", ms.Name, FrameString(f)))
						}
						if f.DataLen > protoChunk {
							bad("chunk-at-most-16k", "s2c:chunk-too-large", fmt.Sprintf("%s: %s", ms.Name, FrameString(f)))
						}
						st.respLeft -= f.DataLen
						if st.respLeft < 0 {
							bad("chunks-sum-to-size", "s2c:more-data-than-size", fmt.Sprintf("%s: %s", ms.Name, FrameString(f)))
						}
					case *tunnelpb.ServerToClient_CloseStream:
						st.closes++
						st.closeSeq = f.Seq
						st.closeBy = f.Sender
						if st.closes > 1 {
							bad("exactly-one-close", "s2c:second-close", fmt.Sprintf("%s: id %d", ms.Name, m.StreamId))
						}
					case *tunnelpb.ServerToClient_WindowUpdate:
						if !neg || st.rev == 0 {
							bad("no-window-update-in-revision-zero", "s2c:window-update-rev0", fmt.Sprintf("%s: %s", ms.Name, FrameString(f)))
						}
					case nil:
						bad("frame-has-a-kind", "s2c:empty-frame", fmt.Sprintf("%s: id %d", ms.Name, m.StreamId))
					}
				}
			}
			if rawServer {
				continue
			}
			// end-of-run rules for streams the server received
			for _, st := range streams {
				if st.newDeliv < 0 {
					continue // the server never saw it
				}
				// The close frame is emitted by a thread started when the stream ends. It is
				// required whenever that happened, and had time to complete, before anything
				// started to take the tunnel down: i.e. the handler thread and all threads it
				// started finished before the teardown mark. In executions without any fault
				// the teardown mark is the scenario's clean close, which waits for every
				// per-RPC thread, so there the rule covers rejected streams too.
				tdStep := 1 << 60
				if teardown < 1<<60 {
					tdStep = w.Tap.Frames[teardown].Step
				}
				faulted := false
				for _, e := range w.Events {
					if e.Actor == "fault" {
						faulted = true
						if e.Step < tdStep {
							tdStep = e.Step
						}
					}
				}
				if x.Ticks > 0 {
					faulted = true
				}
				hthread := ""
				for _, e := range w.Events {
					if e.Actor == "handler:"+st.script && st.script != "" && e.Op == "invoked" {
						hthread = e.Thread
					}
				}
				if st.closes == 0 && w.Vals["proto:skip-close-check"] == nil && !x.Hang && !x.StepCap {
					required := false
					if hthread != "" {
						required = true
						for _, th := range w.S.Threads {
							if th.Name == hthread || strings.HasPrefix(th.Name, hthread+"/") {
								if !th.Done || th.DoneStep < 0 || th.DoneStep >= tdStep {
									required = false
								}
							}
						}
					} else if !faulted {
						cleanClose := false
						for _, e := range w.Events {
							if e.Actor == "env" && e.Op == "clean-close" && e.Step <= tdStep {
								cleanClose = true
							}
						}
						required = cleanClose && st.newDeliv < tdStep
					}
					if required {
						// the frame is sent by a short-lived thread (started by whoever finished
						// the stream: the handler's goroutine or the receive loop); if any such
						// sender was still alive when the tear-down began, its frame may have been
						// lost legitimately
						for _, th := range w.S.Threads {
							last := th.Name[strings.LastIndexByte(th.Name, '/')+1:]
							if (strings.Contains(last, ":finishStream#") || strings.Contains(last, ":serve#")) && (!th.Done || th.DoneStep < 0 || th.DoneStep >= tdStep) {
								required = false
							}
						}
					}
					if required {
						bad("exactly-one-close", "s2c:no-close-frame", fmt.Sprintf("%s: stream %d (script %q) ended, and every thread serving it finished, before the tunnel went down (step %d), but no close frame was emitted", ms.Name, st.id, st.script, tdStep))
					}
				}
				handlerEnded := strings.Contains(st.closeBy, "createStream#") || strings.Contains(st.closeBy, "serveStream")
				if st.closes > 0 && handlerEnded && len(st.afterCls) > 0 {
					bad("close-is-last", "s2c:frame-after-close", fmt.Sprintf("%s: stream %d: %v after the close frame of a stream its handler ended", ms.Name, st.id, st.afterCls))
				}
			}
		}
	}
	return dedupeViolations(vs)
}

func scriptOf(ns *tunnelpb.NewStream) string {
	if v := ns.GetRequestHeaders().GetMd()[ScriptKey]; v != nil && len(v.Val) > 0 {
		return v.Val[0]
	}
	return ""
}

func dedupeViolations(vs []Violation) []Violation {
	seen := map[string]bool{}
	var out []Violation
	for _, v := range vs {
		k := v.Prop + "|" + v.Sig
		if !seen[k] {
			seen[k] = true
			out = append(out, v)
		}
	}
	return out
}

// WinMonitor checks the flow-control window invariants on the wire (property C06) for
// every flow-controlled stream of the execution.
func WinMonitor(sc *Scenario, w *World, x *Exec) []Violation {
	var vs []Violation
	bad := func(rule, sig, detail string) {
		vs = append(vs, Violation{Prop: "C06", Rule: rule, Sig: sig, Detail: detail})
	}
	for _, n := range w.Nets {
		for _, ms := range n.Streams {
			frames := w.Tap.TunnelFrames(ms.Name)
			rawClient := w.Vals["raw:"+ms.Name+":client"] != nil
			rawServer := w.Vals["raw:"+ms.Name+":server"] != nil || w.Vals["rawserver-net:"+ms.net.Label] != nil
			type dirState struct {
				sent    int // data bytes put on the wire by the sender
				credits []*Frame
				granted int
			}
			type sinfo struct {
				rev    tunnelpb.ProtocolRevision
				win    [2]int // window advertised to the sender of direction d (0: requests, 1: responses)
				d      [2]dirState
				script string
				method string
			}
			streams := map[int64]*sinfo{}
			srvWin := -1
			for _, f := range frames {
				var id int64
				dir := -1 // direction of the data: 0 request (C2S proto), 1 response
				dataLen, credit := 0, 0
				isData := false
				switch m := f.Msg.(type) {
				case *tunnelpb.ClientToServer:
					id = m.StreamId
					switch fr := m.Frame.(type) {
					case *tunnelpb.ClientToServer_NewStream:
						streams[id] = &sinfo{rev: fr.NewStream.ProtocolRevision, win: [2]int{srvWin, int(fr.NewStream.InitialWindowSize)}, script: scriptOf(fr.NewStream), method: fr.NewStream.MethodName}
						continue
					case *tunnelpb.ClientToServer_RequestMessage:
						dir, dataLen, isData = 0, f.DataLen, true
					case *tunnelpb.ClientToServer_MoreRequestData:
						dir, dataLen, isData = 0, f.DataLen, true
					case *tunnelpb.ClientToServer_WindowUpdate:
						dir, credit = 1, int(fr.WindowUpdate) // credit for responses
					}
				case *tunnelpb.ServerToClient:
					id = m.StreamId
					switch fr := m.Frame.(type) {
					case *tunnelpb.ServerToClient_Settings:
						srvWin = int(fr.Settings.InitialWindowSize)
						continue
					case *tunnelpb.ServerToClient_ResponseMessage:
						dir, dataLen, isData = 1, f.DataLen, true
					case *tunnelpb.ServerToClient_MoreResponseData:
						dir, dataLen, isData = 1, f.DataLen, true
					case *tunnelpb.ServerToClient_WindowUpdate:
						dir, credit = 0, int(fr.WindowUpdate)
					}
				}
				st := streams[id]
				if st == nil || dir < 0 || st.rev == 0 {
					continue
				}
				ds := &st.d[dir]
				// who emitted this frame? data of direction 0 and credit for direction 1
				// come from the tunnel client; the rest from the tunnel server
				_, fromClient := f.Msg.(*tunnelpb.ClientToServer)
				raw := (fromClient && rawClient) || (!fromClient && rawServer)
				if isData {
					if !raw {
						if dataLen > protoChunk {
							bad("chunk-at-most-16k", "win:chunk-too-large", fmt.Sprintf("%s: %s", ms.Name, FrameString(f)))
						}
						ds.sent += dataLen
						delivered := 0
						for _, c := range ds.credits {
							if c.Deliv >= 0 && c.Deliv <= f.Step {
								delivered += creditOf(c)
							}
						}
						win := st.win[dir]
						if win < 0 {
							win = protoWindow
						}
						if ds.sent-delivered > win {
							bad("sender-respects-window", "win:sender-overrun", fmt.Sprintf("%s: stream %d dir %d: %d data bytes on the wire with %d credit delivered exceeds the advertised window %d (at %s)", ms.Name, id, dir, ds.sent, delivered, win, FrameString(f)))
						}
					} else {
						ds.sent += dataLen
					}
					continue
				}
				if credit > 0 {
					ds.credits = append(ds.credits, f)
					if raw {
						continue
					}
					ds.granted += credit
					// credit granted must not exceed what the receiving application consumed:
					// bounded by the bytes of the first k messages of this direction, k = Recv calls begun
					actor := "handler:" + st.script
					extra := 0
					if dir == 1 {
						actor = "caller:" + st.script
					}
					if st.script == "" {
						continue
					}
					k := 0
					for _, e := range w.Events {
						if e.Actor == actor && e.Op == "recv-begin" && e.Step <= f.Step {
							k++
						}
					}
					// a non-streaming side reads one message ahead to enforce the call shape
					if dir == 0 && (strings.HasSuffix(st.method, "/Unary") || strings.HasSuffix(st.method, "/ServerStream")) {
						extra = 1
					}
					if dir == 1 && (strings.HasSuffix(st.method, "/Unary") || strings.HasSuffix(st.method, "/ClientStream")) {
						extra = 1
					}
					bound := firstKMessageBytes(frames, id, dir, k+extra)
					if ds.granted > bound {
						bad("credit-at-most-consumed", "win:credit-exceeds-consumption", fmt.Sprintf("%s: stream %d dir %d: %d bytes of credit granted after %d application reads begun (at most %d bytes consumable)", ms.Name, id, dir, ds.granted, k, bound))
					}
				}
			}
		}
	}
	wins, missing := w.ReceiverWindows()
	if len(missing) > 0 {
		bad("harness", "dump-missing-field", fmt.Sprint(missing))
	}
	for i, cw := range wins {
		if cw > protoWindow {
			bad("receiver-buffers-at-most-window", "win:receiver-window-corrupt", fmt.Sprintf("receiver #%d advertises %d > %d at the end of the run", i, cw, protoWindow))
		}
	}
	return dedupeViolations(vs)
}

func creditOf(f *Frame) int {
	switch m := f.Msg.(type) {
	case *tunnelpb.ClientToServer:
		return int(m.GetWindowUpdate())
	case *tunnelpb.ServerToClient:
		return int(m.GetWindowUpdate())
	}
	return 0
}

// firstKMessageBytes sums the data bytes of the first k messages of stream id in direction
// dir that appear on the wire.
func firstKMessageBytes(frames []*Frame, id int64, dir, k int) int {
	total, msgs := 0, 0
	for _, f := range frames {
		switch m := f.Msg.(type) {
		case *tunnelpb.ClientToServer:
			if dir != 0 || m.StreamId != id {
				continue
			}
			switch m.Frame.(type) {
			case *tunnelpb.ClientToServer_RequestMessage:
				msgs++
				if msgs > k {
					return total
				}
				total += f.DataLen
			case *tunnelpb.ClientToServer_MoreRequestData:
				if msgs <= k {
					total += f.DataLen
				}
			}
		case *tunnelpb.ServerToClient:
			if dir != 1 || m.StreamId != id {
				continue
			}
			switch m.Frame.(type) {
			case *tunnelpb.ServerToClient_ResponseMessage:
				msgs++
				if msgs > k {
					return total
				}
				total += f.DataLen
			case *tunnelpb.ServerToClient_MoreResponseData:
				if msgs <= k {
					total += f.DataLen
				}
			}
		}
	}
	return total
}

// callerSendFailed reports whether the calling application of this stream had a SendMsg
// fail before step (the message it was sending is then legitimately left incomplete).
func callerSendFailed(w *World, script string, step int) bool {
	for _, e := range w.Events {
		if e.Actor == "caller:"+script && e.Op == "send" && !e.OK() && e.Step <= step {
			return true
		}
	}
	return false
}
