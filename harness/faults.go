package harness

import (
	"context"
	"fmt"
)

// Fault actors are low-priority threads: the default schedule runs them only when nothing
// else can run, so making one strike at quiescent point k is exactly one deviation, and
// the D=1 level of the search is "this cause at every point of the run".

// FaultSpec names a termination / disturbance cause.
type FaultSpec struct {
	Kind string // cancel:<rpc> | chclose | stop | gstop | openctx | break | revclose | shutdown
}

// CancelHandle lets a fault actor cancel the context of a scripted RPC.
func (w *World) registerCancel(id string, c context.CancelFunc) {
	w.mu.Lock()
	w.Vals["cancel:"+id] = c
	w.mu.Unlock()
}

func (w *World) cancelOf(id string) context.CancelFunc {
	w.mu.Lock()
	defer w.mu.Unlock()
	c, _ := w.Vals["cancel:"+id].(context.CancelFunc)
	return c
}

// StartFault starts the actor for one cause against tunnel t. The actor logs when it
// struck (actor "fault").
func (w *World) StartFault(t *Tun, kind string) {
	name := "fault:" + kind
	w.GoLow(name, func() {
		switch {
		case len(kind) > 7 && kind[:7] == "cancel:":
			id := kind[7:]
			w.WaitUntil("fault-ready", func() bool { return w.cancelOf(id) != nil })
			w.Log(Event{Actor: "fault", Op: kind})
			w.cancelOf(id)()
		case kind == "chclose":
			w.WaitUntil("fault-ready", func() bool { return true })
			w.Log(Event{Actor: "fault", Op: kind})
			t.Ch.Close()
		case kind == "stop":
			w.WaitUntil("fault-ready", func() bool { return true })
			w.Log(Event{Actor: "fault", Op: kind})
			t.RevSrv.Stop()
			// which handler contexts are cancelled at the moment Stop returns?
			live := ""
			w.mu.Lock()
			for k, v := range w.Vals {
				if len(k) > 5 && k[:5] == "hctx:" {
					if c, ok := v.(context.Context); ok && c.Err() == nil {
						live += k[5:] + ","
					}
				}
			}
			w.mu.Unlock()
			w.Log(Event{Actor: "fault", Op: "stop-returned", Detail: "live-handler-contexts=" + live})
		case kind == "gstop":
			w.WaitUntil("fault-ready", func() bool { return true })
			w.Log(Event{Actor: "fault", Op: kind})
			t.RevSrv.GracefulStop()
			w.Log(Event{Actor: "fault", Op: "gstop-returned"})
		case kind == "gstop-stop":
			// the documented way to bound a graceful drain: GracefulStop is pending, then Stop
			w.WaitUntil("fault-ready", func() bool { return true })
			w.Log(Event{Actor: "fault", Op: kind})
			g := w.Go("fault:gstop-stop:graceful", false, func() { t.RevSrv.GracefulStop() })
			w.WaitUntil("gstop-pending", func() bool { return g.Done || (g.Parked && g.Kind == "wgwait") })
			t.RevSrv.Stop()
			w.Log(Event{Actor: "fault", Op: "stop-returned"})
		case kind == "openctx":
			w.WaitUntil("fault-ready", func() bool { return true })
			w.Log(Event{Actor: "fault", Op: kind})
			t.Cancel()
		case kind == "shutdown":
			w.WaitUntil("fault-ready", func() bool { return true })
			w.Log(Event{Actor: "fault", Op: kind})
			t.Handler.InitiateShutdown()
		case kind == "break":
			w.WaitUntil("fault-ready", func() bool { return true })
			w.Log(Event{Actor: "fault", Op: kind})
			for _, ms := range t.Net.Streams {
				ms.Break()
			}
		default:
			panic(fmt.Sprintf("unknown fault %q", kind))
		}
	})
}

// FaultStep returns the step at which the fault struck, or -1.
func (w *World) FaultStep(kind string) int {
	for _, e := range w.Events {
		if e.Actor == "fault" && e.Op == kind {
			return e.Step
		}
	}
	return -1
}

func isFaultName(name string) bool {
	return len(name) > 6 && name[:6] == "fault:" || name == "clock"
}

// onlyFaults is a DevOK filter admitting only fault actors and the clock as deviations.
func onlyFaults(name string, prev []string) bool { return isFaultName(name) }

// faultThenAny admits only fault/clock deviations first and anything afterwards.
func faultThenAny(name string, prev []string) bool {
	if len(prev) == 0 {
		return isFaultName(name)
	}
	return true
}

// oneFaultAnyOrder admits paths with exactly one fault/clock deviation among the first two
// deviations, in either order (a schedule deviation before the cause strikes, or after).
func oneFaultAnyOrder(name string, prev []string) bool {
	nf := 0
	for _, p := range prev {
		if isFaultName(p) {
			nf++
		}
	}
	if isFaultName(name) {
		return nf == 0
	}
	return true
}
