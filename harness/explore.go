package harness

import (
	"fmt"
	"hash/fnv"
	"os"
	"runtime/debug"
	"runtime/metrics"
	"sort"
	"strings"
	"sync"
	"syscall"
	"testing"
	"testing/synctest"
	"time"

	"github.com/jhump/grpctunnel/verifrt"
)

// Options of one scenario's exploration.
type Options struct {
	Level    string   // "io" | "chan" | "sync" | "focus"
	Focus    []string // function names whose synchronisation sites are active at level "focus"
	Bound    int      // deviation bound D
	Horizon  int      // clock ticks available
	Quantum  time.Duration
	MaxSteps int
	// DevOK restricts which alternatives count as admissible deviations (nil = all).
	// It receives the name of the alternative (thread name, "clock", or "select:...") and
	// the names of the deviations already taken on this path.
	DevOK func(name string, prev []string) bool
	// RevOrder makes the default scheduler prefer the enabled thread with the greatest name
	// (children before parents, server side before callers): a second family of default
	// schedules around which deviations are explored.
	RevOrder bool
	// Unbounded explores every schedule (Bound is ignored).
	Unbounded bool
	// NoLeakCheck disables the generic leak oracle for scenarios that end on purpose
	// with a live tunnel.
	NoLeakCheck bool
	// AllocLimit bounds the bytes one execution may allocate (process-wide heap allocation
	// counter; a worker runs one execution at a time). 0 = DefaultAllocLimit.
	AllocLimit int64
	// AllocRisk marks scenarios whose peer announces sizes of a gigabyte or more: a broken
	// endpoint would allocate that much, so their executions are serialised across the worker
	// processes (file lock) instead of letting 16 of them do it at once.
	AllocRisk bool
}

// DefaultAllocLimit is far above what any scenario legitimately allocates (messages of at most
// a few windows, a few hundred events) and far below what an endpoint allocates that sizes a
// buffer by what the peer announces rather than by what it received.
const DefaultAllocLimit = 32 << 20

var allocSample = []metrics.Sample{{Name: "/gc/heap/allocs:bytes"}}

func heapAllocs() int64 {
	metrics.Read(allocSample)
	return int64(allocSample[0].Value.Uint64())
}

func allocLock() func() {
	path := os.Getenv("VERIF_ALLOC_LOCK")
	if path == "" {
		return func() {}
	}
	f, err := os.OpenFile(path, os.O_CREATE|os.O_RDWR, 0o644)
	if err != nil {
		return func() {}
	}
	_ = syscall.Flock(int(f.Fd()), syscall.LOCK_EX)
	return func() { _ = syscall.Flock(int(f.Fd()), syscall.LOCK_UN); f.Close() }
}

// Scenario is one closed program handed to the explorer.
type Scenario struct {
	Name  string
	Prop  string
	Opt   Options
	Run   func(w *World)
	Check func(w *World, x *Exec) []Violation
	// Desc is a human-readable description used in evidence samples.
	Desc string
	// Heavy scenarios are explored by all workers together (sharded by first deviation)
	// instead of being assigned to one worker.
	Heavy bool
}

// Violation of a property in one execution.
type Violation struct {
	Prop   string `json:"property"`
	Rule   string `json:"rule"`
	Sig    string `json:"signature"` // stable identity of the failing site/history class
	Detail string `json:"detail"`
}

// Point is one recorded choice point (only points with >= 2 options are recorded).
type Point struct {
	Names  []string
	Chosen int
	Kind   string // "thread" | "value"
}

// Exec is the result of one execution.
type Exec struct {
	Points   []Point
	Trace    []string // thread released at each step
	Steps    int
	Hang     bool
	HangInfo []string
	Leaked   []string
	Panics   []string
	StepCap  bool
	Diverged string
	Bubble   string // recovered bubble panic text
	// Abandoned: the bubble was left with blocked goroutines (hung or leaking execution)
	Abandoned bool
	W         *World
	States    []uint64
	ConfSig   uint64
	Conflict  bool
	Ticks     int
	// Alloc: bytes allocated by the process during this execution
	Alloc int64
}

func (x *Exec) Choices() []int {
	c := make([]int, len(x.Points))
	for i, p := range x.Points {
		c[i] = p.Chosen
	}
	return c
}

func levelActive(o *Options) func(kind, site string) bool {
	focus := func(site string) bool {
		i := strings.LastIndexByte(site, ':')
		fn := site[i+1:]
		// "(*tunnelChannel).newStream.func1" / "(*defaultReceiver[...]).dequeue" -> method name
		for {
			j := strings.LastIndexByte(fn, '.')
			if j < 0 {
				break
			}
			last := fn[j+1:]
			if strings.HasPrefix(last, "func") || last == "" || (last[0] >= '0' && last[0] <= '9') {
				fn = fn[:j]
				continue
			}
			fn = last
			break
		}
		for _, f := range o.Focus {
			if fn == f {
				return true
			}
		}
		return false
	}
	return func(kind, site string) bool {
		switch kind {
		case "app", "carrier", "go":
			return true
		case "wait", "sleep":
			return false
		}
		switch o.Level {
		case "io":
			return false
		case "chan":
			return kind == "chan"
		case "sync":
			return true
		case "focus":
			return focus(site)
		}
		return false
	}
}

var execMu sync.Mutex // one execution at a time per process (the scheduler is global)

// RunOnce executes the scenario once: the recorded choice points take the values of
// prefix, later ones the default 0. expect, if non-nil, holds the option names recorded
// for the prefix points by the parent execution (divergence check).
func RunOnce(t *testing.T, sc *Scenario, prefix []int, expect [][]string) (x *Exec) {
	execMu.Lock()
	defer execMu.Unlock()
	x = &Exec{}
	defer func() {
		if r := recover(); r != nil {
			x.Bubble = fmt.Sprint(r)
		}
		verifrt.Install(nil)
	}()
	o := sc.Opt
	if o.MaxSteps == 0 {
		o.MaxSteps = 20000
	}
	if o.Quantum == 0 {
		o.Quantum = time.Second
	}
	if o.AllocRisk {
		defer allocLock()()
	}
	a0 := heapAllocs()
	defer func() {
		x.Alloc = heapAllocs() - a0
		if x.Alloc > 256<<20 {
			debug.FreeOSMemory()
		}
	}()
	synctest.Test(t, func(t *testing.T) {
		s := verifrt.New()
		s.Active = levelActive(&o)
		s.LogAccess = true
		w := &World{S: s, Vals: map[string]any{}, Scripts: map[string]*HandlerScript{}, Start: time.Now()}
		w.Tap = &Tap{w: w, next: map[string]int{}}
		x.W = w
		var pmu sync.Mutex
		decide := func(kind string, names []string) int {
			pmu.Lock()
			defer pmu.Unlock()
			i := len(x.Points)
			c := 0
			if i < len(prefix) {
				c = prefix[i]
				if c >= len(names) {
					if x.Diverged == "" {
						x.Diverged = fmt.Sprintf("point %d: choice %d of %d options %v", i, c, len(names), names)
					}
					c = 0
				}
				if expect != nil && i < len(expect) && !sameStrings(expect[i], names) && x.Diverged == "" {
					x.Diverged = fmt.Sprintf("point %d: options %v, recorded %v", i, names, expect[i])
				}
			}
			x.Points = append(x.Points, Point{Names: names, Chosen: c, Kind: kind})
			return c
		}
		s.Decide = func(site string, n int) int {
			names := make([]string, n)
			for i := range names {
				names[i] = fmt.Sprintf("%s#%d", site, i)
			}
			return decide("value", names)
		}
		verifrt.Install(s)
		verifrt.GoOpt("main", verifrt.ThreadOpt{App: true, Abs: true}, func() { sc.Run(w) })
		last := ""
		for {
			synctest.Wait()
			w.step = x.Steps
			for _, inv := range w.Invariants {
				if msg := inv(); msg != "" {
					w.InvFail = append(w.InvFail, fmt.Sprintf("step %d: %s", x.Steps, msg))
				}
			}
			for _, th := range s.Threads {
				if th.Done && th.DoneStep < 0 {
					th.DoneStep = x.Steps
				}
			}
			enabled, waiting, blocked := s.Snapshot()
			x.States = append(x.States, stateKey(w, s))
			// is anything that matters still alive?
			alive := false
			for _, th := range s.Threads {
				if !th.Done && !th.Daemon {
					alive = true
				}
			}
			if !alive {
				break
			}
			var norm, low []*verifrt.Thread
			for _, th := range enabled {
				if th.Low == 0 {
					norm = append(norm, th)
				} else {
					low = append(low, th)
				}
			}
			sort.Slice(norm, func(i, j int) bool {
				if o.RevOrder {
					return norm[i].Name > norm[j].Name
				}
				return norm[i].Name < norm[j].Name
			})
			for i, th := range norm {
				if th.Name == last {
					copy(norm[1:i+1], norm[:i])
					norm[0] = th
					break
				}
			}
			sort.Slice(low, func(i, j int) bool {
				if low[i].Low != low[j].Low {
					return low[i].Low < low[j].Low
				}
				return low[i].Name < low[j].Name
			})
			type opt struct {
				th   *verifrt.Thread
				name string
			}
			var opts []opt
			for _, th := range norm {
				opts = append(opts, opt{th, th.Name})
			}
			// scripted peers (Low 1) rank after the system under test: by default a peer
			// speaks only when the endpoint has nothing left to do
			for _, th := range low {
				if th.Low == 1 {
					opts = append(opts, opt{th, th.Name})
				}
			}
			clockAt := -1
			// deviations may waste ticks before a timer is even armed, so the budget grows
			// with the bound: every timer of the scenario still fires within the run
			if o.Horizon > 0 && x.Ticks < o.Horizon+o.Bound+1 {
				// the clock ranks after every thread that can run and before fault threads
				clockAt = len(opts)
				opts = append(opts, opt{nil, "clock"})
			}
			for _, th := range low {
				if th.Low != 1 {
					opts = append(opts, opt{th, th.Name})
				}
			}
			_ = clockAt
			if len(opts) == 0 {
				_ = waiting
				_ = blocked
				break
			}
			if x.Steps >= o.MaxSteps {
				x.StepCap = true
				break
			}
			c := 0
			if len(opts) > 1 {
				names := make([]string, len(opts))
				for i := range opts {
					names[i] = opts[i].name
				}
				c = decide("thread", names)
			}
			ch := opts[c]
			x.Trace = append(x.Trace, ch.name)
			x.Steps++
			if ch.th == nil {
				x.Ticks++
				time.Sleep(o.Quantum)
				last = ""
			} else {
				last = ch.name
				s.Release(ch.th)
			}
		}
		// classification
		for _, th := range s.Threads {
			if th.Panic != nil {
				x.Panics = append(x.Panics, fmt.Sprintf("%s: %v\n%s", th.Name, th.Panic, trimStack(th.PanicStack)))
			}
			if th.Done || th.Daemon {
				continue
			}
			where := th.Kind + "@" + th.Site
			if !th.Parked {
				where = "blocked-in-runtime"
			}
			if th.App {
				x.Hang = true
				x.HangInfo = append(x.HangInfo, th.Name+" "+where)
			} else {
				x.Leaked = append(x.Leaked, th.Name+" "+where)
			}
		}
		if x.Hang {
			// threads of the system under test that are still alive in a hung execution
			// are part of the hang, not separate leaks
			x.HangInfo = append(x.HangInfo, x.Leaked...)
			x.Leaked = nil
		}
		x.ConfSig, x.Conflict = conflictSig(s)
		if x.Hang || len(x.Leaked) > 0 {
			// Threads of the code under test are stuck in the middle of its critical
			// sections; unwinding them is not safe. The bubble is abandoned instead (its
			// goroutines stay blocked for the life of the worker); synctest reports that
			// as a deadlock panic, recovered above.
			x.Abandoned = true
			return
		}
		s.AbortAll()
		synctest.Wait()
	})
	return x
}

func trimStack(s string) string {
	lines := strings.Split(s, "\n")
	if len(lines) > 24 {
		lines = lines[:24]
	}
	return strings.Join(lines, "\n")
}

func sameStrings(a, b []string) bool {
	if len(a) != len(b) {
		return false
	}
	for i := range a {
		if a[i] != b[i] {
			return false
		}
	}
	return true
}

// stateKey hashes the control state at a quiescent point: where every thread is, what
// the carrier holds and how many observations have been made.
func stateKey(w *World, s *verifrt.Sched) uint64 {
	h := fnv.New64a()
	for _, th := range s.Threads {
		switch {
		case th.Done:
			fmt.Fprintf(h, "%s:done|", th.Name)
		case th.Parked:
			fmt.Fprintf(h, "%s:%s@%s|", th.Name, th.Kind, th.Site)
		default:
			fmt.Fprintf(h, "%s:blocked|", th.Name)
		}
	}
	for _, n := range w.Nets {
		for _, ms := range n.Streams {
			h.Write([]byte(ms.State()))
		}
	}
	fmt.Fprintf(h, "ev=%d t=%d", len(w.Events), time.Since(w.Start))
	return h.Sum64()
}

// conflictSig hashes, per synchronisation object touched by at least two threads, the
// order in which threads touched it. Two executions with the same signature order all
// conflicting accesses alike.
func conflictSig(s *verifrt.Sched) (uint64, bool) {
	type seq struct {
		order   []int
		threads map[int]bool
	}
	objs := map[uintptr]*seq{}
	var keys []uintptr
	for _, a := range s.Accesses {
		if a.Obj == 0 {
			continue
		}
		q := objs[a.Obj]
		if q == nil {
			q = &seq{threads: map[int]bool{}}
			objs[a.Obj] = q
			keys = append(keys, a.Obj)
		}
		if n := len(q.order); n == 0 || q.order[n-1] != a.Thread {
			q.order = append(q.order, a.Thread)
		}
		q.threads[a.Thread] = true
	}
	h := fnv.New64a()
	conflict := false
	// objects are identified by first-touch order (addresses differ between executions)
	for i, k := range keys {
		q := objs[k]
		if len(q.threads) < 2 {
			continue
		}
		conflict = true
		fmt.Fprintf(h, "o%d:%v|", i, q.order)
	}
	return h.Sum64(), conflict
}
