package harness

import (
	"fmt"
	"strings"

	"github.com/jhump/grpctunnel/tunnelpb"
)

func c10InFlight() map[string]Workload {
	u := StdWorkload("u", 1, "Unary", []int{3}, []int{3})
	u.Handler.Ops = []HOp{{K: "recv"}, {K: "waitfault"}, {K: "return", Size: 3}}
	b := StdWorkload("b", 2, "Bidi", nil, nil)
	b.Call.Ops = []COp{{K: "new"}, {K: "send", Size: 16385}, {K: "recv"}, {K: "waitfault"}, {K: "send", Size: 3}, {K: "closesend"}, {K: "recvall"}, {K: "trailer"}}
	b.Handler.Ops = []HOp{{K: "recv"}, {K: "send", Size: 16385}, {K: "recvall"}, {K: "send", Size: 3}, {K: "return"}}
	cs := StdWorkload("cs", 3, "ClientStream", nil, nil)
	cs.Call.Ops = []COp{{K: "new"}, {K: "send", Size: 200000}, {K: "closesend"}, {K: "recvall"}}
	cs.Handler.Ops = []HOp{{K: "waitfault"}, {K: "recvall"}, {K: "send", Size: 3}, {K: "return"}}
	return map[string]Workload{"u": u, "b": b, "cs": cs}
}

func c10Scenarios(tier string) []*Scenario {
	var scs []*Scenario
	thorough := tier == "thorough"
	sets := [][]string{{}, {"u"}, {"b"}, {"cs"}, {"u", "b"}, {"u", "cs"}, {"b", "cs"}}
	for _, rev := range []bool{false, true} {
		for _, noFC := range []bool{false, true} {
			for _, set := range sets {
				for _, nAfter := range []int{1, 2} {
					rev, noFC, set, nAfter := rev, noFC, set, nAfter
					if noFC && (len(set) != 1 || nAfter != 1) {
						continue
					}
					if noFC && set[0] == "cs" {
						continue // a non-reading handler blocks a revision-zero tunnel by design
					}
					cfg := TunCfg{Reverse: rev, ServerNoFC: noFC}
					cause := "shutdown"
					if rev {
						cause = "gstop"
					}
					opt := Options{Level: "io", Bound: 1, DevOK: onlyFaults}
					if len(set) <= 1 && nAfter == 1 && tier != "lite" {
						opt = Options{Level: "io", Bound: 2, DevOK: oneFaultAnyOrder}
					}
					if thorough {
						opt = Options{Level: "io", Bound: 2, DevOK: oneFaultAnyOrder}
					}
					var wls []Workload
					for _, k := range set {
						wls = append(wls, c10InFlight()[k])
					}
					scs = append(scs, &Scenario{
						Name: fmt.Sprintf("c10/%s/%s/inflight=%v/after=%d", cfg, cause, set, nAfter), Prop: "C10",
						Desc: fmt.Sprintf("tunnel %s with in-flight RPCs %v; graceful shutdown (%s) is initiated at every quiescent point; %d RPCs are attempted afterwards while the in-flight ones continue; finally the tunnel is stopped", cfg, set, cause, nAfter),
						Opt:  opt,
						Run: func(w *World) {
							t := w.OpenTunnel(cfg)
							if t.StartErr != nil {
								return
							}
							w.StartFault(t, cause)
							ths := w.StartCallers(t, wls)
							w.WaitUntil("shutdown-initiated", func() bool { return w.FaultStep(cause) >= 0 })
							if rev {
								// GracefulStop has been called; wait until it has taken effect (it blocks)
								w.WaitUntil("gstop-effective", func() bool {
									for _, th := range w.S.Threads {
										if th.Name == "fault:gstop" {
											return th.Done || (th.Parked && th.Kind == "wgwait")
										}
									}
									return true
								})
							}
							for i := 0; i < nAfter; i++ {
								shape := []string{"Unary", "Bidi"}[i%2]
								a := StdWorkload(fmt.Sprintf("after%d", i), byte(20+i), shape, []int{3}, []int{3})
								w.Scripts[a.Handler.ID] = &a.Handler
								w.RunCall(t.Conn, &a.Call)
							}
							w.Join(ths...)
							w.Point("env:check-up")
							w.Log(Event{Actor: "env", Op: "tunnel-up", Detail: fmt.Sprint(!chanDone(t))})
							w.Drain()
							if rev {
								w.Point("env:gstop-check")
								ret := false
								for _, e := range w.Events {
									if e.Actor == "fault" && e.Op == "gstop-returned" {
										ret = true
									}
								}
								w.Log(Event{Actor: "env", Op: "gstop-returned-after-rpcs", Detail: fmt.Sprint(ret)})
								w.StartFault(t, "stop")
								// an RPC attempted once Stop has been called: it may fail in any way, but
								// its handler must never run
								late := StdWorkload("late", 30, "Bidi", []int{3}, []int{3})
								w.Scripts["late"] = &late.Handler
								lt := w.Go("caller:late", true, func() {
									w.WaitUntil("stop-called", func() bool { return w.FaultStep("stop") >= 0 })
									w.RunCall(t.Conn, &late.Call)
								})
								defer w.Join(lt)
								w.WaitUntil("stopped", func() bool {
									for _, e := range w.Events {
										if e.Actor == "fault" && e.Op == "stop-returned" {
											return true
										}
									}
									return false
								})
								t.AwaitEnd()
								t.Cancel()
								w.Drain()
							} else {
								t.Close()
							}
						},
						Check: func(w *World, x *Exec) []Violation {
							vs := NoHang(x, "C10")
							if x.Hang {
								return vs
							}
							bad := func(rule, sig, d string) {
								vs = append(vs, Violation{Prop: "C10", Rule: rule, Sig: sig, Detail: d + "\n" + w.Outcome()})
							}
							fs := w.FaultStep(cause)
							// RPCs attempted afterwards
							for i := 0; i < nAfter; i++ {
								id := fmt.Sprintf("after%d", i)
								for _, e := range w.EventsOf("caller:" + id) {
									term := (e.Op == "invoke") || (e.Op == "recv" && !e.OK()) || (e.Op == "new" && !e.OK())
									if !term {
										continue
									}
									if e.OK() || e.Code == "EOF" {
										bad("later-rpcs-refused", "shutdown:later-rpc-succeeded", fmt.Sprintf("rpc %s started after the shutdown completed OK", id))
									} else if e.Code != "Unavailable" {
										bad("later-rpcs-refused", "shutdown:later-rpc-wrong-code:"+e.Code, fmt.Sprintf("rpc %s started after the shutdown ended with %s(%s), expected Unavailable", id, e.Code, e.Err))
									}
									break
								}
								for _, e := range w.EventsOf("handler:" + id) {
									if e.Op == "invoked" {
										bad("later-rpcs-refused", "shutdown:later-rpc-reached-handler", fmt.Sprintf("rpc %s started after the shutdown reached its handler", id))
									}
								}
							}
							for _, e := range w.EventsOf("handler:late") {
								if e.Op == "invoked" {
									bad("later-rpcs-refused", "shutdown:rpc-after-stop-reached-handler", "an RPC started after Stop had been called (GracefulStop before it) reached its handler")
								}
							}
							for _, e := range w.EventsOf("caller:late") {
								if (e.Op == "invoke" && e.OK()) || (e.Op == "recv" && e.Code == "EOF") {
									bad("later-rpcs-refused", "shutdown:rpc-after-stop-succeeded", "an RPC started after Stop had been called completed OK")
								}
							}
							// in-flight RPCs: accepted by the server before the shutdown => complete normally
							for _, wl := range wls {
								id := wl.Call.ID
								accepted := false
								for _, f := range w.Tap.Frames {
									if m, ok := f.Msg.(*tunnelpb.ClientToServer); ok && m.GetNewStream() != nil && scriptOf(m.GetNewStream()) == id && f.Deliv >= 0 && f.Deliv < fs {
										accepted = true
									}
								}
								if !accepted {
									continue // not in flight yet when the shutdown struck: either outcome is legal
								}
								for _, v := range completeOK(w, "C10", wl) {
									v.Rule, v.Sig = "in-flight-rpcs-complete", "shutdown:in-flight-rpc-failed:"+id
									vs = append(vs, v)
								}
							}
							var ids []string
							for _, wl := range wls {
								ids = append(ids, wl.Call.ID)
							}
							vs = append(vs, msgOracle(w, "C10", ids)...)
							for _, e := range w.EventsOf("env") {
								if e.Op == "tunnel-up" && e.Detail != "true" {
									bad("tunnel-stays-up-for-in-flight", "shutdown:tunnel-down", "the tunnel went down during graceful shutdown")
								}
								if e.Op == "gstop-returned-after-rpcs" && e.Detail != "true" {
									cls := "idle-tunnel"
									if len(set) > 0 {
										cls = "after-in-flight-rpcs"
									}
									bad("graceful-stop-returns", "shutdown:gstop-did-not-return:"+cls, "GracefulStop had not returned although every in-flight RPC had finished and the tunnel was idle")
								}
							}
							if rev {
								// Stop returns only after every Serve call returned and the handlers are cancelled
								stopRet, serveRet := -1, -1
								for _, e := range w.Events {
									if e.Actor == "fault" && e.Op == "stop-returned" {
										stopRet = e.Step
										if !strings.HasSuffix(e.Detail, "live-handler-contexts=") {
											bad("stop-cancels-handlers", "shutdown:stop-returned-with-live-handlers", e.Detail)
										}
									}
									if e.Op == "serve-returned" {
										serveRet = e.Step
									}
								}
								if stopRet >= 0 && (serveRet < 0 || serveRet > stopRet) {
									bad("stop-waits-for-serve", "shutdown:stop-returned-before-serve", fmt.Sprintf("Stop returned at step %d, Serve at %d", stopRet, serveRet))
								}
							}
							vs = append(vs, NoLeak(w, x, "C10")...)
							return vs
						},
					})
				}
			}
		}
	}
	for _, rev := range []bool{false, true} {
		for _, revOrder := range []bool{false, true} {
			rev, revOrder := rev, revOrder
			b := 1
			if thorough {
				b = 2
			}
			scs = append(scs, &Scenario{
				Name: fmt.Sprintf("c10/refusal-race/rev=%v/order=%v", rev, revOrder), Prop: "C10", Heavy: true,
				Desc: fmt.Sprintf("graceful shutdown has been initiated on an idle tunnel (reverse=%v); a unary and a server-streaming RPC are then started: the refusal may reach the caller's end before the caller has finished starting the RPC; every synchronisation operation of the library is a scheduling point, scheduler family rev=%v, <= %d deviations", rev, revOrder, b),
				Opt:  Options{Level: "sync", Bound: b, RevOrder: revOrder},
				Run: func(w *World) {
					t := w.OpenTunnel(TunCfg{Reverse: rev})
					if t.StartErr != nil {
						return
					}
					if rev {
						w.StartFault(t, "gstop")
						w.WaitUntil("gstop-effective", func() bool {
							for _, th := range w.S.Threads {
								if th.Name == "fault:gstop" {
									return th.Done || (th.Parked && th.Kind == "wgwait")
								}
							}
							return false
						})
					} else {
						t.Handler.InitiateShutdown()
					}
					for i, shape := range []string{"Unary", "ServerStream"} {
						a := StdWorkload(fmt.Sprintf("after%d", i), byte(20+i), shape, []int{3}, []int{3})
						w.Scripts[a.Handler.ID] = &a.Handler
						w.RunCall(t.Conn, &a.Call)
					}
					if rev {
						w.StartFault(t, "stop")
						t.AwaitEnd()
						t.Cancel()
						w.Drain()
					} else {
						t.Close()
					}
				},
				Check: func(w *World, x *Exec) []Violation {
					vs := NoHang(x, "C10")
					if x.Hang {
						vs[0].Sig = "shutdown:refusal-race:" + vs[0].Sig
						return vs
					}
					for i := 0; i < 2; i++ {
						id := fmt.Sprintf("after%d", i)
						for _, e := range w.EventsOf("caller:" + id) {
							term := (e.Op == "invoke") || (e.Op == "recv" && !e.OK()) || (e.Op == "new" && !e.OK())
							if term && e.Code != "Unavailable" {
								vs = append(vs, Violation{Prop: "C10", Rule: "later-rpcs-refused", Sig: "shutdown:refusal-race:wrong-result:" + e.Code, Detail: fmt.Sprintf("rpc %s started after the shutdown ended with %s(%s)\n%s", id, e.Code, e.Err, w.Outcome())})
							}
							if term {
								break
							}
						}
					}
					return vs
				},
			})
		}
	}
	return scs
}

// c10ServeVsStop: "Stop returns only after every Serve call has returned": a Serve call racing
// Stop either registers before Stop looks (and is ended by it) or is refused; it never goes on
// serving a stopped server (the scenario ends only when Serve has returned).
func c10ServeVsStop(tier string) []*Scenario {
	var scs []*Scenario
	for _, sc := range c14Dedicated(tier) {
		if !strings.HasPrefix(sc.Name, "c14/open-vs-stop") {
			continue
		}
		c := *sc
		orig := sc.Check
		c.Name, c.Prop = "c10/serve-vs-stop/"+strings.TrimPrefix(sc.Name, "c14/open-vs-stop/"), "C10"
		c.Check = func(w *World, x *Exec) []Violation {
			vs := orig(w, x)
			for i := range vs {
				vs[i].Prop = "C10"
				vs[i].Sig = "shutdown:serve-vs-stop:" + vs[i].Sig
			}
			// Serve returned after Stop returned => it must not have served
			stopRet, serveRet, started := -1, -1, false
			for _, e := range w.Events {
				if e.Actor == "fault" && e.Op == "stop-returned" {
					stopRet = e.Step
				}
				if e.Op == "serve-returned" {
					serveRet = e.Step
					started = strings.Contains(e.Detail, "started=true")
				}
			}
			if stopRet >= 0 && serveRet > stopRet && started {
				vs = append(vs, Violation{Prop: "C10", Rule: "stop-waits-for-serve", Sig: "shutdown:stop-returned-before-serving-serve", Detail: fmt.Sprintf("Stop returned at step %d while a Serve call that did serve returned only at step %d\n%s", stopRet, serveRet, w.Outcome())})
			}
			return vs
		}
		scs = append(scs, &c)
	}
	return scs
}

func init() {
	register(&PropDef{ID: "C10", Level: "model_checking",
		Rule:      "in-flight workloads (subsets of size <= 2 of {U with the handler waiting, B mid-stream, CS blocked on the window}, or none) x InitiateShutdown (forward) / GracefulStop (reverse) at every quiescent point x 1-2 RPCs attempted afterwards x {flow control, revision zero}; quick: the shutdown alone at every point (D=1), thorough: + one further deviation, which interleaves the later RPCs' frames with the in-flight ones; then Stop; plus the refusal racing the start of the refused RPC with every synchronisation operation of the library as a scheduling point (both scheduler families); oracle: later RPCs end Unavailable and never reach a handler, RPCs accepted before the shutdown complete normally with all data, the tunnel stays up, GracefulStop returns once they finished, Stop returns after Serve with all handler contexts cancelled, nothing left behind",
		Globals:   []func(*Scenario, *World, *Exec) []Violation{ProtoMonitor},
		Scenarios: func(tier string) []*Scenario { return append(c10Scenarios(tier), c10ServeVsStop(tier)...) }})
}
