package harness

import (
	"context"
	"fmt"
	"strings"

	"github.com/jhump/grpctunnel"
	"github.com/jhump/grpctunnel/tunnelpb"
	"google.golang.org/grpc/codes"
)

// wireFacts summarises what the negotiation-relevant frames on a carrier stream were.
type wireFacts struct {
	settings, winUpdates int
	revs                 map[int32]int
	settingsRevs         []tunnelpb.ProtocolRevision
}

func factsOf(w *World, stream string, onlyFromReal string) wireFacts {
	f := wireFacts{revs: map[int32]int{}}
	for _, fr := range w.Tap.TunnelFrames(stream) {
		switch m := fr.Msg.(type) {
		case *tunnelpb.ClientToServer:
			if onlyFromReal == "server" {
				continue
			}
			if ns := m.GetNewStream(); ns != nil {
				f.revs[int32(ns.ProtocolRevision)]++
			}
			if _, ok := m.Frame.(*tunnelpb.ClientToServer_WindowUpdate); ok {
				f.winUpdates++
			}
		case *tunnelpb.ServerToClient:
			if onlyFromReal == "client" {
				continue
			}
			if s := m.GetSettings(); s != nil {
				f.settings++
				f.settingsRevs = s.SupportedProtocolRevisions
			}
			if _, ok := m.Frame.(*tunnelpb.ServerToClient_WindowUpdate); ok {
				f.winUpdates++
			}
		}
	}
	return f
}

func c11Scenarios(tier string) []*Scenario {
	var scs []*Scenario
	bound := 2
	if tier == "thorough" {
		bound = 3
	}
	// (1) real endpoints: 16 configurations x 4 shapes
	for _, rev := range []bool{false, true} {
		for _, cno := range []bool{false, true} {
			for _, sno := range []bool{false, true} {
				for _, legacy := range []bool{false, true} {
					for _, shape := range []string{"Unary", "ClientStream", "ServerStream", "Bidi"} {
						cfg := TunCfg{Reverse: rev, ClientNoFC: cno, ServerNoFC: sno, Legacy: legacy}
						shape := shape
						req, resp := shapesReqResp(shape, []int{65537, 3})
						wl := StdWorkload("r1", 1, shape, req, resp)
						name := fmt.Sprintf("c11/real/rev=%v/clientNoFC=%v/serverNoFC=%v/legacy=%v/%s", rev, cno, sno, legacy, shape)
						scs = append(scs, &Scenario{
							Name: name, Prop: "C11",
							Desc: fmt.Sprintf("two real endpoints, reverse=%v, flow control disabled on client=%v / server=%v, negotiate header stripped both ways=%v; one %s RPC with a 65537-byte message", rev, cno, sno, legacy, shape),
							Opt:  Options{Level: "io", Bound: bound},
							Run:  func(w *World) { RunWorkloads(w, cfg, []Workload{wl}) },
							Check: func(w *World, x *Exec) []Violation {
								vs := NoHang(x, "C11")
								if x.Hang {
									return vs
								}
								bad := func(rule, sig, d string) {
									vs = append(vs, Violation{Prop: "C11", Rule: rule, Sig: sig, Detail: d + "\n" + w.Outcome()})
								}
								f := factsOf(w, "T0", "")
								wantFC := cfg.FlowControlled()
								wantSettings := !legacy
								if (f.settings > 0) != wantSettings {
									bad("settings-iff-negotiated", fmt.Sprintf("neg:settings=%d-want-%v", f.settings, wantSettings), fmt.Sprintf("settings frames: %d, negotiation advertised by both: %v", f.settings, wantSettings))
								}
								if wantFC {
									if f.revs[1] == 0 || f.revs[0] > 0 {
										bad("revision-is-highest-common", "neg:fc-expected-but-rev0", fmt.Sprintf("new_stream revisions used: %v, expected revision one", f.revs))
									}
									if f.winUpdates == 0 {
										bad("flow-control-used", "neg:no-window-updates", "a 65537-byte transfer produced no window_update although flow control must be in use")
									}
								} else {
									if f.revs[1] > 0 {
										bad("revision-is-highest-common", "neg:rev1-without-agreement", fmt.Sprintf("new_stream revisions used: %v, expected revision zero", f.revs))
									}
									if f.winUpdates > 0 {
										bad("no-window-updates-in-revision-zero", "neg:window-updates-in-rev0", fmt.Sprintf("%d window_update frames although flow control is not in use", f.winUpdates))
									}
								}
								vs = append(vs, msgOracle(w, "C11", []string{"r1"})...)
								vs = append(vs, completeOK(w, "C11", wl)...)
								return vs
							},
						})
					}
				}
			}
		}
	}
	// (2a) raw legacy client against a real server (option on/off)
	for _, sno := range []bool{false, true} {
		for _, method := range []string{"Unary", "ClientStream", "ServerStream", "Bidi"} {
			sno, method := sno, method
			scs = append(scs, &Scenario{
				Name: fmt.Sprintf("c11/legacy-client/serverNoFC=%v/%s", sno, method), Prop: "C11",
				Desc: fmt.Sprintf("scripted revision-zero client (no negotiate header, protocol_revision 0, never settings/window_update) calls %s on a real server (flow control disabled=%v) with a 70000-byte request", method, sno),
				Opt:  Options{Level: "io", Bound: bound},
				Run: func(w *World) {
					h := grpctunnel.NewTunnelServiceHandler(grpctunnel.TunnelServiceHandlerOptions{DisableFlowControl: sno})
					h.RegisterService(&TestSvcDesc, &TestServer{W: w, Name: "fwd"})
					n := NewNet(w, "T")
					tunnelpb.RegisterTunnelServiceServer(n, h.Service())
					hs := StdWorkload("s1", 1, method, []int{70000}, []int{70000}).Handler
					w.Scripts["s1"] = &hs
					rc, err := w.OpenRawClient(n, false)
					if err != nil {
						return
					}
					w.Vals["rc"] = rc
					peer := w.GoPeer("rawclient", func() {
						b := msgBytes(1, 0, 0, 70000)
						_ = rc.Send(fNew(1, "/verif.T/"+method, 0, 0, "s1"))
						_ = rc.Send(fReq(1, uint32(len(b)), b[:16384]))
						for off := 16384; off < len(b); off += 16384 {
							end := off + 16384
							if end > len(b) {
								end = len(b)
							}
							_ = rc.Send(fMoreReq(1, b[off:end]))
						}
						_ = rc.Send(fHalf(1))
						w.WaitUntil("raw:closed", func() bool { return len(rc.CloseOf(1)) > 0 || rc.Done })
						rc.Finish()
					})
					w.Join(peer)
					w.Drain()
				},
				Check: func(w *World, x *Exec) []Violation {
					vs := NoHang(x, "C11")
					if x.Hang {
						return vs
					}
					bad := func(rule, sig, d string) {
						vs = append(vs, Violation{Prop: "C11", Rule: rule, Sig: sig, Detail: d + "\n" + w.Outcome()})
					}
					f := factsOf(w, "T0", "server")
					if f.settings > 0 {
						bad("only-revision-zero-frames-to-legacy-peer", "neg:settings-to-legacy-client", "the server sent a settings frame to a client that did not advertise negotiation")
					}
					if f.winUpdates > 0 {
						bad("only-revision-zero-frames-to-legacy-peer", "neg:window-update-to-legacy-client", "the server sent window_update frames to a revision-zero client")
					}
					rc, _ := w.Vals["rc"].(*RawClient)
					if rc != nil {
						cl := rc.CloseOf(1)
						if len(cl) != 1 || codes.Code(cl[0].GetStatus().GetCode()) != codes.OK {
							bad("rpcs-work-with-legacy-peer", "neg:legacy-client-rpc-failed", fmt.Sprintf("close frames: %v", cl))
						}
						// the response must be complete: 70000 bytes (or 3 for non-streaming... all use 70000)
						got := 0
						for _, m := range rc.Recvd {
							got += dataLenS(m)
						}
						if got != len(msgBytes(1, 1, 0, 70000)) {
							bad("rpcs-work-with-legacy-peer", "neg:legacy-client-response-incomplete", fmt.Sprintf("received %d response bytes", got))
						}
					}
					for _, e := range w.EventsOf("handler:s1") {
						if e.Op == "recv" && e.OK() && e.Detail != "m="+Ident(1, 0, 0, 70000) {
							bad("rpcs-work-with-legacy-peer", "neg:legacy-client-request-corrupt", e.Detail)
						}
					}
					return vs
				},
			})
		}
	}
	// (2b) raw legacy server against a real client (option on/off)
	for _, cno := range []bool{false, true} {
		for _, method := range []string{"Unary", "ClientStream", "ServerStream", "Bidi"} {
			cno, method := cno, method
			scs = append(scs, &Scenario{
				Name: fmt.Sprintf("c11/legacy-server/clientNoFC=%v/%s", cno, method), Prop: "C11",
				Desc: fmt.Sprintf("real client (flow control disabled=%v) calls %s with a 70000-byte request on a scripted revision-zero server (no negotiate header, no settings, no window_update)", cno, method),
				Opt:  Options{Level: "io", Bound: bound},
				Run: func(w *World) {
					n := w.NewRawServerNet("T", false, func(c *RawServerConn) error {
						if _, err := c.RecvUntil(func(m *tunnelpb.ClientToServer) bool { return m.GetHalfClose() != nil }); err != nil {
							return nil
						}
						b := msgBytes(1, 1, 0, 3)
						_ = c.Send(fHdr(1, nil))
						_ = c.Send(fResp(1, uint32(len(b)), b))
						_ = c.Send(fClose(1, codes.OK, ""))
						c.DrainAll()
						return nil
					})
					ctx, cancel := context.WithCancel(context.Background())
					defer cancel()
					var opts []grpctunnel.TunnelOption
					if cno {
						opts = append(opts, grpctunnel.WithDisableFlowControl())
					}
					ch, err := grpctunnel.NewChannel(tunnelpb.NewTunnelServiceClient(n), opts...).Start(ctx)
					if err != nil {
						w.Log(Event{Actor: "env", Op: "start", Err: err.Error(), Code: "start-failed"})
						return
					}
					req, _ := shapesReqResp(method, []int{70000})
					wl := StdWorkload("r1", 1, method, req, []int{3})
					spec := wl.Call
					w.Join(w.Go("caller:r1", true, func() { w.RunCall(ch, &spec) }))
					ch.Close()
					w.WaitUntil("tunnel-end", func() bool { return n.Streams[0].Finished })
					w.Drain()
				},
				Check: func(w *World, x *Exec) []Violation {
					vs := NoHang(x, "C11")
					if x.Hang {
						return vs
					}
					bad := func(rule, sig, d string) {
						vs = append(vs, Violation{Prop: "C11", Rule: rule, Sig: sig, Detail: d + "\n" + w.Outcome()})
					}
					f := factsOf(w, "T0", "client")
					if f.revs[0] == 0 || f.revs[1] > 0 {
						bad("only-revision-zero-frames-to-legacy-peer", "neg:rev1-to-legacy-server", fmt.Sprintf("revisions in new_stream: %v", f.revs))
					}
					if f.winUpdates > 0 {
						bad("only-revision-zero-frames-to-legacy-peer", "neg:window-update-to-legacy-server", "the client sent window_update frames to a revision-zero server")
					}
					ok := false
					for _, e := range w.EventsOf("caller:r1") {
						if (e.Op == "invoke" && e.OK()) || (e.Op == "recv" && e.Code == "EOF") {
							ok = true
						}
					}
					if !ok {
						bad("rpcs-work-with-legacy-peer", "neg:legacy-server-rpc-failed", "the RPC did not complete OK")
					}
					return vs
				},
			})
		}
	}
	// (3) raw server settings messages against a real client
	revLists := [][]int32{{}, {0}, {1}, {0, 1}, {1, 0}, {1, 1}, {7}, {0, 7}, {7, 1}}
	wins := []uint32{0, 1, 65536, maxU32}
	sids := []int64{-1, 0, 5}
	firsts := []string{"settings", "headers", "window_update", "eof", "settings-twice"}
	for _, cno := range []bool{false, true} {
		for _, rl := range revLists {
			for _, win := range wins {
				for _, sid := range sids {
					for _, first := range firsts {
						cno, rl, win, sid, first := cno, rl, win, sid, first
						if cno && (win != 65536 || sid != -1) && first != "settings" {
							continue
						}
						scs = append(scs, &Scenario{
							Name: fmt.Sprintf("c11/settings/clientNoFC=%v/revs=%v/win=%d/sid=%d/first=%s", cno, rl, win, sid, first), Prop: "C11",
							Desc: fmt.Sprintf("real client (flow control disabled=%v) starts a tunnel to a scripted server whose first frame is %q: settings{revisions %v, window %d} with stream id %d; then one Unary RPC", cno, first, rl, win, sid),
							Opt:  Options{Level: "io", Bound: bound},
							Run: func(w *World) {
								n := w.NewRawServerNet("T", true, func(c *RawServerConn) error {
									switch first {
									case "settings", "settings-twice":
										_ = c.Send(fSettings(sid, win, rl...))
									case "headers":
										_ = c.Send(fHdr(1, nil))
									case "window_update":
										_ = c.Send(fWinS(1, 5))
									case "eof":
										return nil
									}
									ns, err := c.RecvUntil(func(m *tunnelpb.ClientToServer) bool { return m.GetNewStream() != nil })
									if err != nil {
										return nil
									}
									if first == "settings-twice" {
										_ = c.Send(fSettings(-1, 65536, 0, 1))
									}
									if ns.GetNewStream().ProtocolRevision == 1 {
										// make sure the request can flow whatever window was advertised
										_ = c.Send(fWinS(1, 65536))
									}
									if _, err := c.RecvUntil(func(m *tunnelpb.ClientToServer) bool { return m.GetHalfClose() != nil }); err != nil {
										return nil
									}
									b := msgBytes(1, 1, 0, 3)
									_ = c.Send(fHdr(1, nil))
									_ = c.Send(fResp(1, uint32(len(b)), b))
									_ = c.Send(fClose(1, codes.OK, ""))
									c.DrainAll()
									return nil
								})
								ctx, cancel := context.WithCancel(context.Background())
								defer cancel()
								var opts []grpctunnel.TunnelOption
								if cno {
									opts = append(opts, grpctunnel.WithDisableFlowControl())
								}
								ch, err := grpctunnel.NewChannel(tunnelpb.NewTunnelServiceClient(n), opts...).Start(ctx)
								if err != nil {
									w.Log(Event{Actor: "env", Op: "start", Err: err.Error(), Code: "start-failed"})
									return
								}
								w.Point("env:err")
								em, ec := errFields(ch.Err())
								w.Log(Event{Actor: "env", Op: "err-after-start", Err: em, Code: ec})
								spec := StdWorkload("r1", 1, "Unary", []int{3}, []int{3}).Call
								w.Join(w.Go("caller:r1", true, func() { w.RunCall(ch, &spec) }))
								ch.Close()
								w.WaitUntil("tunnel-end", func() bool { return n.Streams[0].Finished })
								w.Drain()
							},
							Check: func(w *World, x *Exec) []Violation {
								vs := NoHang(x, "C11")
								if x.Hang {
									return vs
								}
								bad := func(rule, sig, d string) {
									vs = append(vs, Violation{Prop: "C11", Rule: rule, Sig: sig, Detail: d + "\n" + w.Outcome()})
								}
								// reference negotiation
								clientRevs := map[int32]bool{0: true, 1: !cno}
								list := rl
								if len(list) == 0 {
									list = []int32{0} // "if that is observed, the client should assume the server only supports revision zero"
								}
								best := int32(-1)
								for _, r := range list {
									if clientRevs[r] && r > best {
										best = r
									}
								}
								valid := (first == "settings" || first == "settings-twice") && sid == -1 && best >= 0
								startFailed, rpcOK := false, false
								for _, e := range w.Events {
									if e.Actor == "env" && (e.Op == "start" || (e.Op == "err-after-start" && !e.OK())) {
										startFailed = true
									}
									if e.Actor == "caller:r1" && e.Op == "invoke" && e.OK() {
										rpcOK = true
									}
								}
								f := factsOf(w, "T0", "client")
								cls := fmt.Sprintf("revs=%v", rl)
								if len(rl) > 0 {
									cls = "nonempty"
								} else {
									cls = "empty-revision-list"
								}
								if valid {
									if startFailed || !rpcOK {
										bad("valid-settings-accepted", "neg:valid-settings-rejected:"+cls, fmt.Sprintf("settings are valid (common revision %d) but the tunnel did not work", best))
									} else if f.revs[best] == 0 {
										bad("revision-is-highest-common", "neg:wrong-revision:"+cls, fmt.Sprintf("highest common revision is %d but new_stream used %v", best, f.revs))
									}
									if best == 0 && f.winUpdates > 0 {
										bad("no-window-updates-in-revision-zero", "neg:window-updates-in-rev0", "window_update sent under revision zero")
									}
								} else {
									if rpcOK {
										bad("malformed-settings-fail-tunnel", "neg:malformed-settings-accepted:"+first, "the settings exchange is malformed or has no common revision, but the tunnel proceeded and an RPC succeeded")
									}
									if !startFailed {
										bad("malformed-settings-fail-tunnel", "neg:malformed-settings-no-error:"+first, "the settings exchange is malformed or has no common revision, but neither Start nor Err() reported an error")
									}
								}
								return vs
							},
						})
					}
				}
			}
		}
	}
	return scs
}

var _ = strings.Contains

func init() {
	register(&PropDef{ID: "C11", Level: "exploration",
		Rule:      "full configuration matrix {client, server} x {flow control on, off, legacy (negotiate header stripped both ways)} x {forward, reverse} x 4 shapes with two real endpoints; one-sided revision-zero peers (scripted raw client / raw server) against real endpoints with the option on and off x 4 shapes; every settings message over revision lists {[],[0],[1],[0,1],[1,0],[1,1],[7],[0,7],[7,1]} x windows {0,1,65536,MaxUint32} x stream ids {-1,0,5} x first frame {settings, headers, window_update, EOF, settings twice} x client option; all schedules with <= 2 (quick) / 3 (thorough) deviations at frame granularity; oracle: reference negotiation function + wire facts (settings/window_update presence, protocol_revision) + RPC results + no hang",
		Globals:   []func(*Scenario, *World, *Exec) []Violation{ProtoMonitor, WinMonitor},
		Scenarios: c11Scenarios})
}
