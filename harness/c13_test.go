package harness

import (
	"context"
	"fmt"
	"reflect"
	"strings"

	"github.com/jhump/grpctunnel"
	"github.com/jhump/grpctunnel/tunnelpb"
	"google.golang.org/grpc/codes"
	"google.golang.org/grpc/metadata"
)

// c13: the protocol monitor over the union of the other properties' scenarios, plus the
// handler-versus-receive-loop races that are specific to frame emission.

func c13Races(tier string) []*Scenario {
	var scs []*Scenario
	bound := 2
	if tier == "thorough" {
		bound = 3
	}
	focus := []string{"finishStream", "SendMsg", "setHeader", "SendHeader", "SetHeader", "sendHeadersLocked", "send", "acceptClientFrame", "halfClose", "setTrailer", "serveStream"}
	hmd := metadata.Pairs("h", "1")
	// (1) the caller cancels while the handler is emitting headers, messages and its return
	for _, cfg := range []TunCfg{{}, {ServerNoFC: true}} {
		for _, variant := range []string{"send-send-return", "sendheader-send-return", "send-fail"} {
			cfg, variant := cfg, variant
			wl := StdWorkload("r1", 1, "Bidi", []int{3}, nil)
			wl.Call.Ops = []COp{{K: "new"}, {K: "send", Size: 3}, {K: "recv"}, {K: "recvall"}}
			switch variant {
			case "send-send-return":
				wl.Handler.Ops = []HOp{{K: "recv"}, {K: "sethdr", MD: hmd}, {K: "send", Size: 3}, {K: "send", Size: 16385}, {K: "return"}}
			case "sendheader-send-return":
				wl.Handler.Ops = []HOp{{K: "recv"}, {K: "sendhdr", MD: hmd}, {K: "send", Size: 3}, {K: "return"}}
			case "send-fail":
				wl.Handler.Ops = []HOp{{K: "recv"}, {K: "send", Size: 3}, {K: "return", Code: codes.Aborted, Msg: "x"}}
			}
			wl.Handler.KeepGoing = true
			scs = append(scs, &Scenario{
				Name: fmt.Sprintf("c13/race/cancel/%s/%s", cfg, variant), Prop: "C13", Heavy: true,
				Desc: fmt.Sprintf("Bidi RPC on a %s tunnel whose handler does %s while the caller cancels: the cancel frame makes the receive loop finish the stream concurrently with the handler's own emissions; every synchronisation operation of the server's emission path is a scheduling point; the cancel plus <= %d further deviations in any order", cfg, variant, bound-1),
				Opt:  Options{Level: "focus", Focus: focus, Bound: bound, DevOK: oneFaultAnyOrder},
				Run: func(w *World) {
					t := w.OpenTunnel(cfg)
					if t.StartErr != nil {
						return
					}
					w.StartFault(t, "cancel:r1")
					w.Join(w.StartCallers(t, []Workload{wl})...)
					t.Close()
				},
				Check: func(w *World, x *Exec) []Violation { return NoHang(x, "C13") },
			})
		}
	}
	// (2) a raw client makes the receive loop finish the stream (nil frame = protocol error,
	// window overrun) while the handler is emitting
	for _, cause := range []string{"nil-frame", "overrun", "cancel", "nil-frame/rev", "overrun/rev", "cancel/rev", "cancel-mid-message", "nil-frame-mid-message", "cancel-mid-message/rev", "nil-frame-mid-message/rev"} {
		// "/rev": the second family of default schedules (greatest thread name first)
		rev := strings.HasSuffix(cause, "/rev")
		name := cause
		cause := strings.TrimSuffix(cause, "/rev")
		scs = append(scs, &Scenario{
			Name: "c13/race/raw/" + name, Prop: "C13", Heavy: true,
			Desc: "a scripted client opens a Bidi stream whose handler sends headers, two messages and returns, and concurrently makes the server's receive loop finish that stream (" + cause + "); every synchronisation operation of the server's emission path is a scheduling point",
			Opt:  Options{Level: "focus", Focus: focus, Bound: bound, RevOrder: rev},
			Run: func(w *World) {
				h := grpctunnel.NewTunnelServiceHandler(grpctunnel.TunnelServiceHandlerOptions{})
				h.RegisterService(&TestSvcDesc, &TestServer{W: w, Name: "fwd"})
				n := NewNet(w, "T")
				tunnelpb.RegisterTunnelServiceServer(n, h.Service())
				w.Scripts["s1"] = &HandlerScript{ID: "s1", Tag: 1, KeepGoing: true, Ops: []HOp{{K: "sendhdr", MD: hmd}, {K: "send", Size: 3}, {K: "send", Size: 16385}, {K: "return"}}}
				mid := strings.HasSuffix(cause, "-mid-message")
				if mid {
					// one message of four chunks; the peer reacts to its first chunk
					w.Scripts["s1"].Ops = []HOp{{K: "sendhdr", MD: hmd}, {K: "send", Size: 3*16384 + 1}, {K: "return"}}
				}
				rc, err := w.OpenRawClient(n, true)
				if err != nil {
					return
				}
				w.GoLow("fault:hangup", func() {
					w.WaitUntil("hangup", func() bool { return true })
					w.Vals["hangup"] = true
				})
				// this peer is not "slow": it speaks as fast as it can, so its frames race the handler
				peer := w.Go("rawclient", true, func() {
					_ = rc.Send(fNew(1, "/verif.T/Bidi", 1, 65536, "s1"))
					if mid {
						w.WaitUntil("raw:first-chunk", func() bool {
							for _, m := range rc.Recvd {
								if rm := m.GetResponseMessage(); rm != nil && int(rm.Size) > len(rm.Data) {
									return true
								}
							}
							return w.Vals["hangup"] != nil || rc.Done
						})
					}
					switch strings.TrimSuffix(cause, "-mid-message") {
					case "nil-frame":
						_ = rc.Send(fNilC(1))
					case "cancel":
						_ = rc.Send(fCancel(1))
					case "overrun":
						for i := 0; i < 5; i++ {
							_ = rc.Send(fReq(1, 100000, make([]byte, 16384)))
						}
					}
					w.WaitUntil("raw:settled", func() bool { return len(rc.CloseOf(1)) > 0 || w.Vals["hangup"] != nil || rc.Done })
					rc.Finish()
				})
				w.Join(peer)
				w.Drain()
			},
			Check: func(w *World, x *Exec) []Violation { return NoHang(x, "C13") },
		})
	}
	return scs
}

// unionTier: the union runs re-explore other properties' families; at the quick tier they
// use those families' lightest bounds ("lite" = the cause alone at every point), at the
// thorough tier their quick bounds.
func unionTier(tier string) string {
	if tier == "thorough" {
		return "quick"
	}
	return "lite"
}

func c13Scenarios(tier string) []*Scenario {
	var scs []*Scenario
	scs = append(scs, c13Races(tier)...)
	ut := unionTier(tier)
	pick := func(prefix string, in []*Scenario, keep func(name string) bool) {
		for _, sc := range monitorOnly("c13/union/", "C13", in) {
			if keep == nil || keep(sc.Name) {
				scs = append(scs, sc)
			}
		}
	}
	pick("", c01Scenarios(tier), func(n string) bool {
		// M1 over the boundary sizes of one direction pair, all of M2/M3/M4
		return !strings.Contains(n, "/m1/") || strings.Contains(n, "/Bidi/") || strings.Contains(n, "/Unary/")
	})
	pick("", c02Scenarios(tier), func(n string) bool { return strings.Contains(n, "c02/s/") || strings.Contains(n, "c02/i3/") })
	pick("", c07Scenarios(ut), nil)
	pick("", c10Scenarios(ut), nil)
	pick("", c04Scenarios(ut), func(n string) bool { return strings.HasSuffix(n, "/all") })
	pick("", c16Scenarios(ut), func(n string) bool { return strings.Contains(n, "c16/c/") })
	return scs
}

// ---- C14 ----------------------------------------------------------------------------------

// leakInvariant: at every idle quiescent point the per-tunnel stream tables hold only
// streams that are not finished, and the per-RPC goroutines alive are accounted for by
// unfinished streams.
func leakInvariant(w *World) func() string {
	return func() string {
		for _, n := range w.Nets {
			for _, ms := range n.Streams {
				if len(ms.c2s) > 0 || len(ms.s2c) > 0 {
					return ""
				}
			}
		}
		enabled, _, _ := w.S.Snapshot()
		for _, th := range enabled {
			switch th.Kind {
			case "app", "wait", "sleep":
			default:
				return ""
			}
		}
		liveClient, liveServer := 0, 0
		tablesApp, stablesApp := 0, 0 // table entries, not counting nested tunnels' carrier streams
		var tables, stables int
		for _, o := range w.S.Tracked() {
			v := reflect.ValueOf(o)
			for v.Kind() == reflect.Pointer {
				v = v.Elem()
			}
			switch typeName(o) {
			case "tunnelClientStream":
				if isNilPtrField(v, "done") {
					liveClient++
				}
			case "tunnelServerStream":
				if f := v.FieldByName("closed"); f.IsValid() && !f.Bool() {
					liveServer++
				}
			case "tunnelChannel":
				if f := v.FieldByName("streams"); f.IsValid() {
					tables += f.Len()
					tablesApp += appEntries(f)
				}
			case "tunnelServer":
				if f := v.FieldByName("streams"); f.IsValid() {
					stables += f.Len()
					stablesApp += appEntries(f)
				}
			}
		}
		if tables > liveClient {
			return fmt.Sprintf("client stream tables hold %d entries but only %d client streams are unfinished", tables, liveClient)
		}
		if stables > liveServer {
			return fmt.Sprintf("server stream tables hold %d entries but only %d server streams are unfinished", stables, liveServer)
		}
		// "the tables contain exactly the RPCs still in flight": an RPC whose caller has got its
		// terminal result (Invoke returned, or RecvMsg returned an error) is not in flight, and
		// neither is one whose handler has returned
		started, terminal, invoked, returned := map[string]bool{}, map[string]bool{}, 0, 0
		for _, e := range w.Events {
			switch {
			case strings.HasPrefix(e.Actor, "caller:"):
				switch {
				case e.Op == "new" && e.OK(), e.Op == "send-begin":
					started[e.Actor] = true
				case e.Op == "invoke", e.Op == "recv" && !e.OK():
					terminal[e.Actor] = true
				}
			case strings.HasPrefix(e.Actor, "handler:"):
				if e.Op == "invoked" {
					invoked++
				} else if e.Op == "returned" {
					returned++
				}
			}
		}
		inflight := 0
		for a := range started {
			if !terminal[a] {
				inflight++
			}
		}
		if tablesApp > inflight {
			return fmt.Sprintf("client stream tables hold %d RPCs but only %d RPCs are still in flight at their callers (the others have got their terminal result)", tablesApp, inflight)
		}
		if stablesApp > invoked-returned {
			return fmt.Sprintf("server stream tables hold %d RPCs but only %d handlers are still running", stablesApp, invoked-returned)
		}
		watchers, handlers := 0, 0
		for _, th := range w.S.Threads {
			if th.Done {
				continue
			}
			last := th.Name[strings.LastIndexByte(th.Name, '/')+1:]
			switch {
			case strings.Contains(last, ":newStream#"):
				watchers++
			case strings.Contains(last, ":serveStream#"):
				// the per-stream context watcher; the handler goroutine itself runs application
				// code and lives until the application's handler returns
				handlers++
			}
		}
		if watchers > liveClient {
			return fmt.Sprintf("%d per-RPC client goroutines alive but only %d client streams are unfinished", watchers, liveClient)
		}
		if handlers > liveServer {
			return fmt.Sprintf("%d per-RPC server goroutines alive but only %d server streams are unfinished", handlers, liveServer)
		}
		return ""
	}
}

// appEntries counts the entries of a stream table (map id -> *stream) that are application
// RPCs (the carrier stream of a nested tunnel is an RPC of the library itself).
func appEntries(m reflect.Value) int {
	n := 0
	it := m.MapRange()
	for it.Next() {
		v := it.Value()
		for v.Kind() == reflect.Pointer && !v.IsNil() {
			v = v.Elem()
		}
		if v.Kind() != reflect.Struct {
			n++
			continue
		}
		if f := v.FieldByName("method"); !f.IsValid() || !strings.Contains(f.String(), "TunnelService") {
			n++
		}
	}
	return n
}

func leakGlobal(sc *Scenario, w *World, x *Exec) []Violation {
	if sc.Opt.NoLeakCheck {
		return nil
	}
	vs := NoLeak(w, x, "C14")
	for _, m := range w.InvFail {
		if i := strings.Index(m, ": "); i >= 0 && (strings.Contains(m, "stream tables hold") || strings.Contains(m, "goroutines alive")) {
			vs = append(vs, Violation{Prop: "C14", Rule: "tables-equal-in-flight", Sig: "leak:idle-invariant:" + strings.SplitN(m[i+2:], " but", 2)[0][:20], Detail: m})
			break
		}
	}
	return vs
}

func withLeakInvariant(in []*Scenario) []*Scenario {
	for _, sc := range in {
		run := sc.Run
		sc.Run = func(w *World) {
			w.Invariants = append(w.Invariants, leakInvariant(w))
			run(w)
		}
	}
	return in
}

// c14Dedicated: histories that exist only for the leak oracle.
func c14Dedicated(tier string) []*Scenario {
	var scs []*Scenario
	bound := 2
	if tier == "thorough" {
		bound = 3
	}
	// (1) RPCs whose context is never cancelled, started around the moment the carrier breaks or
	// the channel is closed: a start that fails must leave nothing behind
	for _, cause := range []string{"break", "chclose", "openctx"} {
		for _, rev := range []bool{false, true} {
			cause, rev := cause, rev
			cfg := TunCfg{Reverse: rev, WithBreak: cause == "break"}
			scs = append(scs, &Scenario{
				Name: fmt.Sprintf("c14/start-vs-%s/%s", cause, cfg), Prop: "C14", Heavy: true,
				Desc: fmt.Sprintf("two RPCs whose contexts are never cancelled are started on a %s tunnel while %q strikes at any point (one of them only after the other ended); a start that fails, or an RPC ended by the tunnel, must leave no goroutine and no table entry; <= %d deviations", cfg, cause, bound),
				Opt:  Options{Level: "io", Bound: bound, DevOK: oneFaultAnyOrder},
				Run: func(w *World) {
					w.Invariants = append(w.Invariants, leakInvariant(w))
					t := w.OpenTunnel(cfg)
					if t.StartErr != nil {
						return
					}
					if cause != "break" {
						w.StartFault(t, cause)
					}
					a := StdWorkload("k1", 1, "Unary", []int{3}, []int{3})
					b := StdWorkload("k2", 2, "Bidi", []int{3}, []int{3})
					a.Call.KeepCtx, b.Call.KeepCtx = true, true
					w.Join(w.StartCallers(t, []Workload{a})...)
					w.Join(w.StartCallers(t, []Workload{b})...)
					t.Close()
				},
				// the clean close waits for every per-RPC goroutine of the library: a goroutine
				// that never ends shows up as the scenario never finishing
				Check: func(w *World, x *Exec) []Violation {
					vs := NoHang(x, "C14")
					for i := range vs {
						vs[i].Rule, vs[i].Sig = "no-goroutine-left", "leak:never-ends:"+vs[i].Sig
					}
					return vs
				},
			})
		}
	}
	// (1b) a unary call whose request cannot be marshalled: Invoke fails in its send step; the
	// caller's context is never cancelled, so only the library can end the RPC
	for _, cfg := range []TunCfg{{}, {Reverse: true}, {ServerNoFC: true}} {
		cfg := cfg
		scs = append(scs, &Scenario{
			Name: fmt.Sprintf("c14/invoke-send-fails/%s", cfg), Prop: "C14",
			Desc: fmt.Sprintf("a unary Invoke on a %s tunnel whose request message cannot be marshalled (SendMsg fails inside Invoke), with a context that is never cancelled, followed by a normal RPC; after Invoke has returned nothing of the RPC may remain at either end; <= %d deviations", cfg, bound),
			Opt:  Options{Level: "io", Bound: bound},
			Run: func(w *World) {
				w.Invariants = append(w.Invariants, leakInvariant(w))
				t := w.OpenTunnel(cfg)
				if t.StartErr != nil {
					return
				}
				a := StdWorkload("k1", 1, "Unary", []int{3}, []int{3})
				a.Call.KeepCtx, a.Call.BadRequest = true, true
				a.Handler.Ops = []HOp{{K: "recv"}, {K: "return", Size: 3}}
				b := StdWorkload("k2", 2, "Unary", []int{3}, []int{3})
				w.Join(w.StartCallers(t, []Workload{a})...)
				w.Join(w.StartCallers(t, []Workload{b})...)
				t.Close()
			},
			Check: func(w *World, x *Exec) []Violation {
				vs := NoHang(x, "C14")
				for i := range vs {
					vs[i].Rule, vs[i].Sig = "no-goroutine-left", "leak:never-ends:"+vs[i].Sig
				}
				return vs
			},
		})
	}
	// (2) a reverse tunnel that is stopped / whose serving context is cancelled while it is
	// being opened and registered
	for _, how := range []string{"stop", "cancel"} {
		for _, keyed := range []bool{false, true} {
			how, keyed := how, keyed
			scs = append(scs, &Scenario{
				Name: fmt.Sprintf("c14/open-vs-%s/keyed=%v", how, keyed), Prop: "C14", Heavy: true,
				Desc: fmt.Sprintf("ReverseTunnelServer.Serve opens a reverse tunnel (affinity key used: %v) while %s strikes at any point, including between the creation of the channel and its registration; every lock and channel operation of the registry code is a scheduling point; afterwards both registries must be empty; <= %d deviations", keyed, how, bound),
				Opt: Options{Level: "focus", Bound: bound, DevOK: oneFaultAnyOrder, Focus: []string{"openReverseTunnel", "unregister", "add", "remove",
					"reverseChannelsForKey", "close", "newReverseChannel", "newTunnelChannel", "recvLoop", "Serve", "addInstance", "Stop"}},
				Run: func(w *World) {
					ho := grpctunnel.TunnelServiceHandlerOptions{}
					if keyed {
						ho.AffinityKey = func(ch grpctunnel.TunnelChannel) any { return "k" }
					}
					h := grpctunnel.NewTunnelServiceHandler(ho)
					n := NewNet(w, "T")
					tunnelpb.RegisterTunnelServiceServer(n, h.Service())
					rs := grpctunnel.NewReverseTunnelServer(tunnelpb.NewTunnelServiceClient(n))
					rs.RegisterService(&TestSvcDesc, &TestServer{W: w, Name: "rev"})
					ctx, cancel := context.WithCancel(context.Background())
					defer cancel()
					w.GoLow("fault:"+how, func() {
						w.WaitUntil("fault-ready", func() bool { return true })
						w.Log(Event{Actor: "fault", Op: how})
						if how == "stop" {
							rs.Stop()
							w.Log(Event{Actor: "fault", Op: "stop-returned"})
						} else {
							cancel()
						}
					})
					serve := w.Go("serve:T", true, func() {
						started, err := rs.Serve(ctx)
						em, ec := errFields(err)
						w.Log(Event{Actor: "serve:T", Op: "serve-returned", Err: em, Code: ec, Detail: fmt.Sprintf("started=%v", started)})
					})
					w.Join(serve)
					w.WaitUntil("carrier-done", func() bool {
						for _, ms := range n.Streams {
							if !ms.Finished {
								return false
							}
						}
						return true
					})
					w.Drain()
					w.Point("env:views")
					w.Log(Event{Actor: "views", Op: "end", Detail: fmt.Sprintf("all=%d ready=%v readyk=%v", len(h.AllReverseTunnels()), h.AsChannel().Ready(), h.KeyAsChannel("k").Ready())})
				},
				Check: func(w *World, x *Exec) []Violation {
					if x.Hang {
						return NoHang(x, "C14")
					}
					for _, e := range w.EventsOf("views") {
						if e.Detail != "all=0 ready=false readyk=false" {
							return []Violation{{Prop: "C14", Rule: "registry-equals-open-tunnels", Sig: "leak:registry-after-open-vs-" + how, Detail: "after the tunnel ended the handler still reports: " + e.Detail + "\n" + w.Outcome()}}
						}
					}
					return nil
				},
			})
		}
	}
	return scs
}

func c14Scenarios(tier string) []*Scenario {
	var scs []*Scenario
	scs = append(scs, c14Dedicated(tier)...)
	add := func(in []*Scenario, keep func(string) bool) {
		for _, sc := range withLeakInvariant(monitorOnly("c14/union/", "C14", in)) {
			if keep == nil || keep(sc.Name) {
				// an execution that never ends keeps its goroutines and table entries for ever
				sc.Check = func(w *World, x *Exec) []Violation {
					vs := NoHang(x, "C14")
					for i := range vs {
						vs[i].Rule, vs[i].Sig = "no-goroutine-left", "leak:never-ends:"+vs[i].Sig
					}
					return vs
				}
				scs = append(scs, sc)
			}
		}
	}
	ut := unionTier(tier)
	add(c04Scenarios(ut), nil)
	add(c07Scenarios(ut), nil)
	add(c10Scenarios(ut), nil)
	add(c03Scenarios(tier), func(n string) bool { return !strings.Contains(n, "bin-") })
	add(c01M3(tier), nil)
	add(c09Scenarios(tier), func(n string) bool {
		// the histories that open a stream first (the ones that allocate per-RPC state)
		return strings.HasPrefix(n, "c14/union/c09/h1s/N0B,") || strings.HasPrefix(n, "c14/union/c09/h1c/Hd1,") || strings.HasPrefix(n, "c14/union/c09/h1c/Msg1")
	})
	add(c16Scenarios(ut), func(n string) bool { return strings.Contains(n, "/c16/a/") || strings.Contains(n, "/noclose/") })
	return scs
}

func init() {
	register(&PropDef{ID: "C13", Level: "model_checking",
		Rule:      "an online automaton transcribed from tunnel.proto (settings first/once/id -1 and only when negotiated; one envelope per message, continuations <= 16 KiB summing exactly to the stated size and contiguous per stream; headers at most once and before any message; half-close and cancel at most once, no request data after half-close; ids strictly increasing, first frame new_stream; exactly one close per accepted or rejected stream, last frame of a stream its handler ended; no window_update/revision one without negotiation) judges both directions of every frame of every execution of: the union of the scenario families of C01 (sizes, concurrency, termination), C02 (handler op sequences, completion schedules), C04, C07, C10, C16(c), each explored at its own bound, plus dedicated races of handler emissions against receive-loop finishStream (cancel frame, protocol error, window overrun) at the granularity of every synchronisation operation of the server's emission path with <= 2 (quick) / 3 (thorough) deviations",
		Globals:   []func(*Scenario, *World, *Exec) []Violation{ProtoMonitor},
		Scenarios: c13Scenarios})
	register(&PropDef{ID: "C14", Level: "model_checking",
		Rule:      "after the tear-down of every execution: no thread of the library left, no goroutine left in the bubble, every tunnelChannel / tunnelServer stream table empty, reverse registries empty (read through reflection over objects recorded at allocation); at every idle quiescent point: tables hold only unfinished streams and per-RPC goroutines are accounted for by unfinished streams; dedicated histories (RPCs whose contexts are never cancelled started around a carrier failure / Close / context cancel; a reverse tunnel stopped or cancelled while it is being opened and registered, at lock granularity of the registry code) and the union of the termination-heavy scenario families (C04 every cause at every point, C07 cancel/deadline at every point, C10 shutdown, C03 disturbers, C01 termination, C09 peer histories that open streams, C16 raw request sequences and unclosed multi-response sequences), each at its own bound; at idle points additionally: client table entries <= RPCs whose caller has no terminal result yet, server table entries <= handlers still running",
		Globals:   []func(*Scenario, *World, *Exec) []Violation{leakGlobal},
		Scenarios: c14Scenarios})
}
