package harness

import (
	"context"
	"fmt"
	"strings"

	"github.com/jhump/grpctunnel"
	"github.com/jhump/grpctunnel/tunnelpb"
	"google.golang.org/grpc/codes"
	"google.golang.org/grpc/metadata"
)

// raw server -> real client: the client runs one Bidi RPC (stream id 1); after its
// new_stream arrives the scripted server sends a history of frames, then ends the tunnel.

type s2cFrame struct {
	name string
	mk   func() *tunnelpb.ServerToClient
}

func c09ServerAlphabet() []s2cFrame {
	m := msgBytes(1, 1, 0, 3)
	m10 := []byte{0x0a, 0x08, 0x07, 0x0a, 0x05, 1, 2, 3, 4, 5} // see c09ClientAlphabet
	return []s2cFrame{
		{"Hd1", func() *tunnelpb.ServerToClient { return fHdr(1, metadata.Pairs("h", "1")) }},
		{"Hd5", func() *tunnelpb.ServerToClient { return fHdr(5, nil) }},
		{"Hd0", func() *tunnelpb.ServerToClient { return fHdr(0, nil) }},
		{"Msg1", func() *tunnelpb.ServerToClient { return fResp(1, uint32(len(m)), m) }},
		{"Msg1part", func() *tunnelpb.ServerToClient { return fResp(1, 10, m10[:3]) }},
		{"Msg1over", func() *tunnelpb.ServerToClient { return fResp(1, 2, m) }},
		{"Msg1max", func() *tunnelpb.ServerToClient { return fResp(1, maxU32, m) }},
		{"Msg1huge", func() *tunnelpb.ServerToClient { return fResp(1, 70000, make([]byte, 70000)) }},
		{"Msg5", func() *tunnelpb.ServerToClient { return fResp(5, uint32(len(m)), m) }},
		{"More1", func() *tunnelpb.ServerToClient { return fMoreResp(1, m10[3:]) }},
		{"CloseOK1", func() *tunnelpb.ServerToClient { return fClose(1, codes.OK, "") }},
		{"CloseErr1", func() *tunnelpb.ServerToClient { return fClose(1, codes.DataLoss, "scripted") }},
		{"CloseNil1", func() *tunnelpb.ServerToClient {
			return &tunnelpb.ServerToClient{StreamId: 1, Frame: &tunnelpb.ServerToClient_CloseStream{CloseStream: &tunnelpb.CloseStream{}}}
		}},
		{"Close5", func() *tunnelpb.ServerToClient { return fClose(5, codes.OK, "") }},
		{"Close-1", func() *tunnelpb.ServerToClient { return fClose(-1, codes.OK, "") }},
		{"Win1zero", func() *tunnelpb.ServerToClient { return fWinS(1, 0) }},
		{"Win1max", func() *tunnelpb.ServerToClient { return fWinS(1, maxU32) }},
		{"Win0", func() *tunnelpb.ServerToClient { return fWinS(0, 5) }},
		{"Set1", func() *tunnelpb.ServerToClient { return fSettings(1, 65536, 0, 1) }},
		{"Set-1", func() *tunnelpb.ServerToClient { return fSettings(-1, 65536, 0, 1) }},
		{"Z1", func() *tunnelpb.ServerToClient { return fNilS(1) }},
		{"Z7", func() *tunnelpb.ServerToClient { return fNilS(7) }},
	}
}

// specClient classifies a server->client history against the client role of the protocol.
type specClient struct {
	tunnelDead bool
	why        string
	done       bool // stream 1 finished
	ok         bool // ... with OK status
	errored    bool
	msgLeft    int
	msgs       int
	code       codes.Code
	// deadAfterDone: the tunnel-level violation came after stream 1 had finished
	deadAfterDone bool
}

func (s *specClient) step(f *tunnelpb.ServerToClient) {
	if s.tunnelDead {
		return
	}
	id := f.StreamId
	if id != 1 || s.done {
		if id <= 1 {
			// old / finished id: ignored. Negative ids can never have been created; the
			// implementation drops them like late frames, which the documented protocol
			// neither requires nor forbids.
			return
		}
		s.tunnelDead, s.why = true, "frame for an id that was never created"
		s.deadAfterDone = s.done
		return
	}
	switch fr := f.Frame.(type) {
	case *tunnelpb.ServerToClient_Settings, nil:
		s.done, s.errored = true, true
	case *tunnelpb.ServerToClient_ResponseHeaders:
	case *tunnelpb.ServerToClient_ResponseMessage:
		n := len(fr.ResponseMessage.Data)
		if n > protoWindow {
			s.done, s.errored = true, true
			return
		}
		if s.msgLeft > 0 || n > int(fr.ResponseMessage.Size) {
			s.done, s.errored = true, true
			return
		}
		s.msgLeft = int(fr.ResponseMessage.Size) - n
		if s.msgLeft == 0 {
			s.msgs++
		}
	case *tunnelpb.ServerToClient_MoreResponseData:
		n := len(fr.MoreResponseData)
		if s.msgLeft <= 0 || n > s.msgLeft {
			s.done, s.errored = true, true
			return
		}
		s.msgLeft -= n
		if s.msgLeft == 0 {
			s.msgs++
		}
	case *tunnelpb.ServerToClient_CloseStream:
		s.done = true
		s.code = codes.Code(fr.CloseStream.GetStatus().GetCode())
		s.ok = s.code == codes.OK && s.msgLeft <= 0
		if s.msgLeft > 0 {
			s.errored = true
		}
	case *tunnelpb.ServerToClient_WindowUpdate:
	}
}

func c09ClientScenarios(tier string) []*Scenario {
	var scs []*Scenario
	alpha := c09ServerAlphabet()
	maxLen := 3
	var hs [][]int
	var gen func(cur []int)
	gen = func(cur []int) {
		if len(cur) > 0 {
			hs = append(hs, append([]int{}, cur...))
		}
		if len(cur) == maxLen {
			return
		}
		for i := range alpha {
			gen(append(cur, i))
		}
	}
	gen(nil)
	for _, h := range hs {
		var fr []s2cFrame
		var nm []string
		for _, i := range h {
			fr = append(fr, alpha[i])
			nm = append(nm, alpha[i].name)
		}
		if len(h) <= 2 || h[0] == 0 || h[0] == 3 || h[0] == 10 {
			// the reverse role: every history of length <= 2 and those that start with headers,
			// a message or a close for the RPC's stream
			scs = append(scs, c09ReverseClientScenario(fr, nm, 0))
		}
		scs = append(scs, c09ClientScenario("c09/h1c/"+strings.Join(nm, ","), fr, nm, c09bBound(len(fr), tier)))
	}
	return scs
}

// c09ClientScenario: the real tunnel client runs one Bidi RPC against a scripted raw server that
// answers its new_stream with the given frames.
func c09ClientScenario(name string, fr []s2cFrame, nm []string, bound int) *Scenario {
	return &Scenario{
		Name: name, Prop: "C09",
		Desc: fmt.Sprintf("real tunnel client runs one Bidi RPC against a scripted raw server that answers its new_stream with %v and then ends the tunnel", nm),
		Opt:  Options{Level: "io", Bound: bound, AllocRisk: strings.Contains(name, "max") || strings.Contains(name, "GiB")},
		Run: func(w *World) {
			n := w.NewRawServerNet("T", true, func(rs *RawServerConn) error {
				if err := rs.Send(fSettings(-1, 65536, 0, 1)); err != nil {
					return err
				}
				if _, err := rs.RecvUntil(func(m *tunnelpb.ClientToServer) bool { return m.GetNewStream() != nil }); err != nil {
					return nil
				}
				for _, f := range fr {
					if rs.Send(f.mk()) != nil {
						break
					}
				}
				// give the client's RPC the time to observe everything, then hang up
				w.WaitUntil("raw:rpc-done", func() bool { return w.Vals["rpc-done"] != nil })
				return nil
			})
			ctx, cancel := context.WithCancel(context.Background())
			defer cancel()
			ch, err := grpctunnel.NewChannel(tunnelpb.NewTunnelServiceClient(n)).Start(ctx)
			if err != nil {
				w.Log(Event{Actor: "env", Op: "start", Err: err.Error(), Code: "start-failed"})
				w.Vals["rpc-done"] = true
				return
			}
			w.Vals["ch"] = ch
			spec := CallSpec{ID: "r1", Tag: 1, Method: "Bidi", Ops: []COp{{K: "new"}, {K: "send", Size: 3}, {K: "waitpeer"}, {K: "recvall"}, {K: "trailer"}}}
			th := w.Go("caller:r1", true, func() { w.RunCall(ch, &spec) })
			// the RPC may legitimately wait forever for a close the peer never sends:
			// once the peer has said everything and the client is quiescent, cancel it
			w.GoLow("fault:giveup", func() {
				w.WaitUntil("giveup", func() bool { return w.cancelOf("r1") != nil })
				w.Log(Event{Actor: "env", Op: "giveup"})
				if c := w.cancelOf("r1"); c != nil {
					c()
				}
			})
			w.Join(th)
			// let the client consume everything the peer said before Err() is read
			w.WaitUntil("frames-consumed", func() bool {
				select {
				case <-ch.Done():
					return true
				default:
				}
				// the peer must have said everything it has to say and the client must have
				// digested it
				if !w.RecvLoopsIdle() {
					return false
				}
				for _, th := range w.S.Threads {
					if strings.HasPrefix(th.Name, "net:") && strings.HasSuffix(th.Name, ":handler") {
						if !(th.Done || (th.Parked && th.Site == "raw:rpc-done")) {
							return false
						}
					}
				}
				for _, ms := range n.Streams {
					if len(ms.s2c) > 0 {
						return false
					}
				}
				return true
			})
			w.Point("env:err")
			em, ec := errFields(ch.Err())
			w.Log(Event{Actor: "env", Op: "err", Err: em, Code: ec})
			w.Vals["rpc-done"] = true
			ch.Close()
			w.WaitUntil("tunnel-end", func() bool {
				for _, ms := range n.Streams {
					if !ms.Finished {
						return false
					}
				}
				return true
			})
			w.Drain()
		},
		Check: c09ClientCheck(fr, nm),
	}
}

func c09bBound(n int, tier string) int {
	if n <= 2 || tier == "thorough" {
		return 1
	}
	return 0
}

// c09ClientCheck judges one server->client history against the client-role reference.
func c09ClientCheck(fr []s2cFrame, nm []string) func(w *World, x *Exec) []Violation {
	return func(w *World, x *Exec) []Violation {
		vs := NoHang(x, "C09")
		if x.Hang {
			return vs
		}
		bad := func(rule, sig, d string) {
			vs = append(vs, Violation{Prop: "C09", Rule: rule, Sig: sig, Detail: fmt.Sprintf("%v: %s\n%s", nm, d, w.Outcome())})
		}
		spec := &specClient{}
		for _, f := range fr {
			spec.step(f.mk())
		}
		var term *Event
		got := 0
		ce := w.EventsOf("caller:r1")
		for i, e := range ce {
			if e.Op == "recv" && e.OK() {
				got++
			}
			if term == nil && e.Op == "recv" && !e.OK() {
				term = &ce[i]
			}
		}
		gaveUp := false
		var tunErr *Event
		for i, e := range w.Events {
			if e.Actor == "env" && e.Op == "giveup" && term != nil && e.Step <= term.Step {
				gaveUp = true
			}
			if e.Actor == "env" && e.Op == "err" {
				tunErr = &w.Events[i]
			}
		}
		if term == nil {
			return vs
		}
		normal := term.Code == "EOF"
		switch {
		case spec.tunnelDead && !spec.deadAfterDone:
			if normal {
				bad("tunnel-level-violation-ends-tunnel", "peerc:rpc-ok-despite-tunnel-violation", "the history contains a tunnel-level violation ("+spec.why+") but the RPC ended OK")
			}
			if tunErr != nil && tunErr.OK() {
				bad("tunnel-level-violation-ends-tunnel", "peerc:tunnel-violation-tolerated", "the history contains a tunnel-level violation ("+spec.why+") but the channel reports no error")
			}
		case spec.done && spec.ok && !spec.errored:
			if !normal && gaveUp && term.Code == "Canceled" {
				// the harness itself gave up on the RPC before the response arrived
			} else if !normal {
				bad("valid-response-accepted", "peerc:valid-response-rejected:"+term.Code, fmt.Sprintf("valid response history but the RPC ended with %s(%s)", term.Code, term.Err))
			} else if got != spec.msgs {
				bad("valid-response-accepted", "peerc:message-count", fmt.Sprintf("caller received %d messages, the history carries %d", got, spec.msgs))
			}
		case spec.done:
			if normal {
				bad("violation-fails-that-rpc", "peerc:rpc-ok-despite-violation", "the response history is invalid or ends with an error status, but the RPC ended OK")
			}
			if tunErr != nil && !tunErr.OK() && !spec.tunnelDead {
				bad("stream-level-violation-keeps-tunnel", "peerc:tunnel-killed", fmt.Sprintf("stream-level violation but the channel failed with %s(%s)", tunErr.Code, tunErr.Err))
			}
		default:
			// the peer never finished the stream: the RPC can only end by giving up
			if normal {
				bad("violation-fails-that-rpc", "peerc:rpc-ok-without-close", "the RPC ended OK although the peer never closed the stream")
			}
			_ = gaveUp
		}
		for _, wn := range mustWindows(w) {
			bad("bounded-buffering", "peerc:receiver-window-corrupt", wn)
		}
		vs = append(vs, NoLeak(w, x, "C09")...)
		return vs
	}
}

// The same server->client histories, sent by a scripted network CLIENT that opened a reverse
// tunnel to the real TunnelServiceHandler (whose reverse channel plays the tunnel-client role
// over the server side of the carrier stream).
func c09ReverseClientScenario(fr []s2cFrame, nm []string, bound int) *Scenario {
	return &Scenario{
		Name: "c09/h1rc/" + strings.Join(nm, ","), Prop: "C09",
		Desc: fmt.Sprintf("a scripted network client opens a reverse tunnel to the real handler; the handler's pooled channel runs one Bidi RPC; the scripted peer answers its new_stream with %v and then hangs up", nm),
		Opt:  Options{Level: "io", Bound: bound, AllocRisk: strings.Contains(strings.Join(nm, ","), "max")},
		Run: func(w *World) {
			var revCh grpctunnel.TunnelChannel
			h := grpctunnel.NewTunnelServiceHandler(grpctunnel.TunnelServiceHandlerOptions{
				OnReverseTunnelOpen: func(ch grpctunnel.TunnelChannel) { revCh = ch },
			})
			n := NewNet(w, "T")
			n.Peer = DefaultPeer()
			tunnelpb.RegisterTunnelServiceServer(n, h.Service())
			w.Vals["raw:T0:server"] = true
			var sawNew bool
			peer := w.GoPeer("rawrevclient", func() {
				ctx, cancel := context.WithCancel(metadata.AppendToOutgoingContext(context.Background(), "grpctunnel-negotiate", "on"))
				defer cancel()
				cs, err := tunnelpb.NewTunnelServiceClient(n).OpenReverseTunnel(ctx)
				if err != nil {
					return
				}
				reader := w.Go("rawrevclient-reader", false, func() {
					for {
						m, err := cs.Recv()
						if err != nil {
							return
						}
						if m.GetNewStream() != nil {
							sawNew = true
						}
						w.Log(Event{Actor: "rawserver", Op: "got", Detail: c2sKind(m, dataLenC(m)), Idx: int(m.StreamId)})
					}
				})
				w.Point("raw:send")
				_ = cs.Send(fSettings(-1, 65536, 0, 1))
				w.WaitUntil("raw:new-stream", func() bool { return sawNew || reader.Done || w.Vals["rpc-done"] != nil })
				for _, f := range fr {
					w.Point("raw:send")
					if cs.Send(f.mk()) != nil {
						break
					}
				}
				w.Vals["peer-said-all"] = true
				w.WaitUntil("raw:rpc-done", func() bool { return w.Vals["rpc-done"] != nil })
				w.Point("raw:hangup")
				_ = cs.CloseSend()
				w.Join(reader)
			})
			w.WaitUntil("rev-open", func() bool { return revCh != nil || peer.Done })
			if revCh == nil {
				w.Vals["rpc-done"] = true
				w.Join(peer)
				return
			}
			spec := CallSpec{ID: "r1", Tag: 1, Method: "Bidi", Ops: []COp{{K: "new"}, {K: "send", Size: 3}, {K: "waitsaid"}, {K: "recvall"}, {K: "trailer"}}}
			th := w.Go("caller:r1", true, func() { w.RunCall(h.AsChannel(), &spec) })
			w.GoLow("fault:giveup", func() {
				w.WaitUntil("giveup", func() bool { return w.cancelOf("r1") != nil })
				w.Log(Event{Actor: "env", Op: "giveup"})
				w.cancelOf("r1")()
			})
			w.Join(th)
			w.WaitUntil("frames-consumed", func() bool {
				select {
				case <-revCh.Done():
					return true
				default:
				}
				if !w.RecvLoopsIdle() || w.Vals["peer-said-all"] == nil {
					return false
				}
				for _, ms := range n.Streams {
					if len(ms.c2s) > 0 {
						return false
					}
				}
				return true
			})
			w.Point("env:err")
			em, ec := errFields(revCh.Err())
			w.Log(Event{Actor: "env", Op: "err", Err: em, Code: ec})
			w.Vals["rpc-done"] = true
			w.Join(peer)
			w.WaitUntil("tunnel-end", func() bool {
				for _, ms := range n.Streams {
					if !ms.Finished {
						return false
					}
				}
				return true
			})
			w.Drain()
		},
		Check: c09ClientCheck(fr, nm),
	}
}
