package harness

import (
	"fmt"
	"math"
	"strconv"
	"strings"
	"time"

	"google.golang.org/grpc/metadata"
)

// specTimeout is the gRPC wire specification's Timeout grammar
// (TimeoutValue = 1..8 ASCII digits, TimeoutUnit = H|M|S|m|u|n), saturating.
func specTimeout(s string) (time.Duration, bool) {
	if len(s) < 2 || len(s) > 9 {
		return 0, false
	}
	var unit time.Duration
	switch s[len(s)-1] {
	case 'H':
		unit = time.Hour
	case 'M':
		unit = time.Minute
	case 'S':
		unit = time.Second
	case 'm':
		unit = time.Millisecond
	case 'u':
		unit = time.Microsecond
	case 'n':
		unit = time.Nanosecond
	default:
		return 0, false
	}
	digits := s[:len(s)-1]
	for _, c := range digits {
		if c < '0' || c > '9' {
			return 0, false
		}
	}
	v, err := strconv.ParseUint(digits, 10, 64)
	if err != nil {
		return 0, false
	}
	if v > uint64(math.MaxInt64)/uint64(unit) {
		return time.Duration(math.MaxInt64), true
	}
	return time.Duration(v) * unit, true
}

func c18Values(tier string) [][]string {
	var out [][]string
	add := func(v ...string) { out = append(out, v) }
	alpha := []string{"0", "1", "9", "-", "+", " ", "H", "S", "m", "n", "x"}
	maxLen := 4
	if tier == "thorough" {
		maxLen = 5
	}
	var gen func(prefix string, l int)
	gen = func(prefix string, l int) {
		if l == 0 {
			add(prefix)
			return
		}
		for _, a := range alpha {
			gen(prefix+a, l-1)
		}
	}
	for l := 1; l <= maxLen; l++ {
		gen("", l)
	}
	add("")
	// V2: per unit, digit strings of every length 1..20 and the overflow boundaries
	units := map[string]time.Duration{"H": time.Hour, "M": time.Minute, "S": time.Second, "m": time.Millisecond, "u": time.Microsecond, "n": time.Nanosecond}
	for _, u := range []string{"H", "M", "S", "m", "u", "n"} {
		for l := 1; l <= 20; l++ {
			add("1" + strings.Repeat("0", l-1) + u)
			add(strings.Repeat("9", l) + u)
			add(strings.Repeat("0", l-1) + "7" + u)
		}
		b := uint64(math.MaxInt64) / uint64(units[u])
		for _, v := range []uint64{b - 1, b, b + 1} {
			add(strconv.FormatUint(v, 10) + u)
		}
		// values whose product wraps to a small positive number
		w := (uint64(1)<<63)/uint64(units[u]) + 1
		add(strconv.FormatUint(2*w, 10) + u)
		for _, v := range []string{"-1" + u, "+1" + u, " 1" + u, "1 " + u, "1" + u + " ", "0" + u, "00000000" + u, "000000001" + u, "-0" + u, "-" + u, "+" + u} {
			add(v)
		}
	}
	// V3: missing / unknown unit, case confusions, repeated headers
	add("5")
	add("5s")
	add("5h")
	add("5U")
	add("5N")
	add("5 S")
	add("S")
	add("0x5S")
	add("1e3S")
	add("5.0S")
	add("٣S")
	add("5S", "x")
	add("x", "5S")
	add("5S", "7S")
	add("7S", "5S")
	add("5S", "-1S")
	add("-1S", "5S")
	add("99999999999S", "5S")
	return out
}

func c18Scenarios(tier string) []*Scenario {
	var scs []*Scenario
	type c18case struct {
		name string
		vals []string
		cfg  TunCfg
	}
	var cases []c18case
	for i, vals := range c18Values(tier) {
		cases = append(cases, c18case{fmt.Sprintf("c18/v%d/%q", i, vals), vals, TunCfg{}})
	}
	// the tunnel itself was opened with a deadline (one hour): the handler's deadline is the
	// header's duration when that is sooner, and never later than the tunnel's
	for _, rev := range []bool{false, true} {
		for i, vals := range [][]string{{"5S"}, {"1n"}, {"1H"}, {"2H"}, {"59M"}, {"61M"}, {"3600S"}, {"3601S"}, {"3599999m"}, {"99999999H"}, {"5"}, {""}, {"-1S"}, {"5S", "x"}, {"100000000S"}} {
			cfg := TunCfg{Reverse: rev, OpenTimeout: time.Hour}
			cases = append(cases, c18case{fmt.Sprintf("c18/tun1h/%s/v%d/%q", cfg, i, vals), vals, cfg})
		}
	}
	for _, c := range cases {
		vals, name, cfg := c.vals, c.name, c.cfg
		scs = append(scs, &Scenario{
			Name: name, Prop: "C18",
			Desc: fmt.Sprintf("%s tunnel (opened with deadline: %v), one unary RPC whose request metadata has grpc-timeout=%q; the handler reads ctx.Deadline()", cfg, cfg.OpenTimeout, vals),
			Opt:  Options{Level: "io", Bound: 0},
			Run: func(w *World) {
				t := w.OpenTunnel(cfg)
				if t.StartErr != nil {
					w.Log(Event{Actor: "env", Op: "start", Err: t.StartErr.Error(), Code: "start-failed"})
					return
				}
				w.Scripts["r1"] = &HandlerScript{ID: "r1", Tag: 1, Ops: []HOp{{K: "readctx"}, {K: "return", Size: 3}}}
				md := metadata.MD{}
				md["grpc-timeout"] = vals
				w.RunCall(t.Conn, &CallSpec{ID: "r1", Tag: 1, Method: "Unary", MD: md, Ops: []COp{{K: "invoke", Size: 3}}})
				// the tunnel must have survived: a second plain RPC works
				w.Scripts["r2"] = &HandlerScript{ID: "r2", Tag: 2, Ops: []HOp{{K: "recv"}, {K: "return", Size: 3}}}
				w.RunCall(t.Conn, &CallSpec{ID: "r2", Tag: 2, Method: "Unary", Ops: []COp{{K: "invoke", Size: 3}}})
				t.Close()
			},
			Check: func(w *World, x *Exec) []Violation {
				vs := NoHang(x, "C18")
				var ctxEv *Event
				for i, e := range w.Events {
					if e.Actor == "handler:r1" && e.Op == "ctx" {
						ctxEv = &w.Events[i]
					}
				}
				if ctxEv == nil {
					if !x.Hang && len(x.Panics) == 0 {
						vs = append(vs, Violation{Rule: "handler-invoked", Sig: "handler-not-invoked", Detail: "handler r1 never ran: " + w.Outcome()})
					}
					return vs
				}
				got := "none"
				for _, f := range strings.Fields(ctxEv.Detail) {
					if strings.HasPrefix(f, "deadline=") {
						got = strings.TrimPrefix(f, "deadline=")
					}
				}
				// expected set (lenient for repeated headers)
				exp := map[string]bool{}
				var valid []time.Duration
				malformed := false
				for _, v := range vals {
					if d, ok := specTimeout(v); ok {
						valid = append(valid, d)
					} else {
						malformed = true
					}
				}
				if len(vals) == 1 {
					if malformed {
						exp["none"] = true
					} else {
						exp[strconv.FormatInt(int64(valid[0]), 10)] = true
					}
				} else {
					for _, d := range valid {
						exp[strconv.FormatInt(int64(d), 10)] = true
					}
					if malformed {
						exp["none"] = true
					}
				}
				if cfg.OpenTimeout > 0 {
					// every expectation is capped by the tunnel's own deadline
					capped := map[string]bool{}
					for k := range exp {
						if k == "none" {
							capped[strconv.FormatInt(int64(cfg.OpenTimeout), 10)] = true
						} else if d, _ := strconv.ParseInt(k, 10, 64); time.Duration(d) > cfg.OpenTimeout {
							capped[strconv.FormatInt(int64(cfg.OpenTimeout), 10)] = true
						} else {
							capped[k] = true
						}
					}
					exp = capped
				}
				if !exp[got] {
					var ex []string
					for k := range exp {
						ex = append(ex, k)
					}
					cls := "wrong-duration"
					switch {
					case cfg.OpenTimeout > 0:
						cls = "wrong-duration-under-tunnel-deadline"
					case malformed && len(vals) == 1:
						cls = "malformed-accepted:" + c18Class(vals[0])
					case got == "none":
						cls = "valid-rejected"
					default:
						if d, _ := strconv.ParseInt(got, 10, 64); len(valid) > 0 && valid[0] == time.Duration(math.MaxInt64) || d < 0 {
							cls = "overflow-not-saturated"
						}
					}
					vs = append(vs, Violation{Rule: "deadline-equals-spec", Sig: "timeout:" + cls,
						Detail: fmt.Sprintf("grpc-timeout=%q: handler deadline-now = %s ns, specification says %v", vals, got, ex)})
				}
				// tunnel survived
				ok2 := false
				for _, e := range w.Events {
					if e.Actor == "caller:r2" && e.Op == "invoke" && e.OK() {
						ok2 = true
					}
				}
				if !ok2 && !x.Hang {
					vs = append(vs, Violation{Rule: "tunnel-survives", Sig: "tunnel-dead-after-timeout-header", Detail: w.Outcome()})
				}
				return vs
			},
		})
	}
	return scs
}

// c18Class classifies a malformed value so that distinct defects get distinct signatures.
func c18Class(v string) string {
	if len(v) < 2 {
		return "short"
	}
	d := v[:len(v)-1]
	switch {
	case strings.HasPrefix(d, "-"):
		return "negative"
	case strings.HasPrefix(d, "+"):
		return "plus-sign"
	case len(d) > 8:
		return "more-than-8-digits"
	}
	return "other"
}

func init() {
	register(&PropDef{ID: "C18", Level: "exploration",
		Rule: "one execution per grpc-timeout header value list from an explicit finite set (all strings of length <= 4 (quick) / <= 5 (thorough) over {0,1,9,-,+,space,H,S,m,n,x}; per unit all-9 / 10^k / leading-zero digit strings of every length 1..20 and the int64 overflow boundary -1/0/+1; unit and case confusions; repeated headers); the handler's ctx.Deadline() minus virtual now must equal the gRPC wire specification's decoding (saturating), malformed values must yield no deadline; the same for 15 values on forward and reverse tunnels that were themselves opened with a one-hour deadline (expected: the sooner of the two); non-trivial = the case reached the handler and the tunnel served a second RPC afterwards",
		Assumptions: []string{"virtual clock of testing/synctest does not advance during the execution (no clock ticks are scheduled), so deadline minus now is exact",
			"reference decoder transcribed from the gRPC HTTP/2 wire spec (Timeout = 1..8 digits + unit) and cross-checked with grpc-go's decodeTimeout"},
		Scenarios: c18Scenarios})
}
