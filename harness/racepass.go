package harness

import (
	"crypto/sha256"
	"fmt"
	"os"
	"os/exec"
	"path/filepath"
	"regexp"
	"sort"
	"strings"
	"time"
)

// The race pass (C15): a free-running, race-detector-enabled run of concurrent programs against
// the plain library over real grpc-go (package /verif/racepass, built by vcheck from the same
// working tree). It is NOT part of the enumeration and decides nothing by itself except this:
// a report of the Go race detector is a proof that the execution which produced it contains a
// data race, and "without data races" is part of C15's statement. It also backs the
// engine-wide assumption that steps between synchronisation operations are atomic.

type raceReport struct {
	Sig     string
	Text    string
	Library bool // at least one of the two conflicting accesses happens under a library frame
}

var raceFrame = regexp.MustCompile(`^  (\S+)\(\)$`)

// parseRaceReports splits the race detector's log into reports and classifies them.
func parseRaceReports(log string) []raceReport {
	var out []raceReport
	for _, blk := range strings.Split(log, "==================") {
		if !strings.Contains(blk, "WARNING: DATA RACE") {
			continue
		}
		// the two access stacks are the first two paragraphs
		paras := strings.Split(strings.TrimSpace(blk), "\n\n")
		var tops []string
		lib := false
		for i, p := range paras {
			if i > 1 {
				break
			}
			top := ""
			for _, l := range strings.Split(p, "\n") {
				m := raceFrame.FindStringSubmatch(l)
				if m == nil {
					continue
				}
				fn := m[1]
				if strings.HasPrefix(fn, "github.com/jhump/grpctunnel.") {
					lib = true
					if top == "" || !strings.HasPrefix(top, "github.com/jhump/grpctunnel.") {
						top = fn
					}
				} else if top == "" && !strings.HasPrefix(fn, "runtime.") {
					top = fn
				}
			}
			tops = append(tops, shortFn(top))
		}
		sort.Strings(tops)
		out = append(out, raceReport{Sig: "race:" + strings.Join(tops, "|"), Text: strings.TrimSpace(blk), Library: lib})
	}
	return out
}

func shortFn(fn string) string {
	fn = strings.TrimPrefix(fn, "github.com/jhump/grpctunnel.")
	if i := strings.LastIndexByte(fn, '/'); i >= 0 {
		fn = fn[i+1:]
	}
	return fn
}

// runRacePass runs the race binary for the tier's time and returns coverage facts, the
// violations (one per distinct pair of conflicting sites) and whether the pass itself failed.
func runRacePass(bin, tmp, tier string) (cov map[string]any, viols []FoundViolation, harnessErr bool) {
	secs := 20
	if tier == "thorough" {
		secs = 240
	}
	if s := envInt("VERIF_RACE_S", 0); s > 0 {
		secs = s
	}
	logBase := filepath.Join(tmp, "race.log")
	cmd := exec.Command(bin, "-test.run", "^TestRacePass$", "-test.timeout", "0")
	cmd.Env = append(os.Environ(), fmt.Sprintf("VERIF_RACE_S=%d", secs), "GORACE=halt_on_error=0 log_path="+logBase)
	start := time.Now()
	outB, runErr := cmd.CombinedOutput()
	out := string(outB)
	cov = map[string]any{
		"what":    "free-running race-detector pass over real grpc-go (bufconn): sampling, not enumeration; listed for the data-race clause of C15 and for the engine's assumption that steps between synchronisation operations are atomic",
		"seconds": time.Since(start).Seconds(),
	}
	var programs []string
	for _, l := range strings.Split(out, "\n") {
		switch {
		case strings.HasPrefix(l, "RACEPASS-PROGRAM "):
			programs = append(programs, strings.TrimPrefix(l, "RACEPASS-PROGRAM "))
		case strings.HasPrefix(l, "RACEPASS-TOTAL "):
			cov["total"] = strings.TrimPrefix(l, "RACEPASS-TOTAL ")
		case strings.HasPrefix(l, "RACEPASS-STUCK "):
			cov["stuck"] = append(asStrings(cov["stuck"]), strings.TrimPrefix(l, "RACEPASS-STUCK "))
		}
	}
	cov["programs"] = programs
	var log strings.Builder
	files, _ := filepath.Glob(logBase + ".*")
	for _, f := range files {
		b, _ := os.ReadFile(f)
		log.Write(b)
	}
	reports := parseRaceReports(log.String())
	cov["reports"] = len(reports)
	if cov["total"] == nil {
		// the pass did not run to its end: a harness problem unless the detector spoke
		fmt.Fprintf(os.Stderr, "race pass did not complete: %v\n%s\n", runErr, tail(out, 40))
		harnessErr = len(reports) == 0
	}
	seen := map[string]bool{}
	for _, r := range reports {
		if seen[r.Sig] {
			continue
		}
		seen[r.Sig] = true
		if !r.Library {
			fmt.Fprintf(os.Stderr, "HARNESS-ERROR: the race pass raced with itself (%s):\n%s\n", r.Sig, r.Text)
			harnessErr = true
			continue
		}
		h := sha256.Sum256([]byte(r.Sig))
		dir := filepath.Join(verifDir(), "replays", "C15")
		_ = os.MkdirAll(dir, 0o755)
		path := filepath.Join(dir, fmt.Sprintf("race-%x.txt", h[:6]))
		_ = os.WriteFile(path, []byte("Report of the Go race detector from the free-running pass (/verif/racepass, real grpc-go over bufconn).\n"+
			"Not a recorded schedule: re-run with `./vcheck C15` (the pass runs for "+fmt.Sprint(secs)+" s); the detector reports it whenever the two accesses occur unordered.\n\n"+r.Text+"\n"), 0o644)
		viols = append(viols, FoundViolation{Violation: Violation{Prop: "C15", Rule: "no-data-race", Sig: r.Sig,
			Detail: firstLines(r.Text, 14)}, Scenario: "racepass", Replay: path, Repro: 5})
	}
	return cov, viols, harnessErr
}

func asStrings(v any) []string {
	s, _ := v.([]string)
	return s
}

func firstLines(s string, n int) string {
	l := strings.Split(s, "\n")
	if len(l) > n {
		l = l[:n]
	}
	return strings.Join(l, "\n  ")
}
