package harness

import (
	"context"
	"fmt"
	"strings"
	"unicode/utf8"

	"google.golang.org/grpc/codes"
	"google.golang.org/grpc/metadata"
)

// metaExpect is what the caller must observe for one RPC.
type metaExpect struct {
	id       string
	code     codes.Code
	msg      string
	details  int
	header   metadata.MD
	trailer  metadata.MD
	reqMD    metadata.MD // what the handler must see (without the script key); nil = not checked
	nResp    int         // response messages (-1 = not checked)
	hdrOpt   bool
	trlOpt   bool
	checkHdr bool
}

func mdHasNonUTF8(mds ...metadata.MD) bool {
	for _, md := range mds {
		for _, vs := range md {
			for _, v := range vs {
				if !utf8.ValidString(v) {
					return true
				}
			}
		}
	}
	return false
}

// metaOracle compares the caller's terminal status, Header(), Trailer(), option targets
// and the handler's incoming metadata with the scripted values. sigPrefix classifies the
// input so that distinct defects get distinct signatures.
func metaOracle(w *World, x *Exec, ex metaExpect, class string) []Violation {
	var vs []Violation
	bad := func(field, detail string) {
		vs = append(vs, Violation{Prop: "C02", Rule: "meta:" + field, Sig: "meta" + class + ":" + field, Detail: fmt.Sprintf("rpc %s: %s\n%s", ex.id, detail, w.Outcome())})
	}
	if x.Hang {
		return nil // reported by NoHang
	}
	ce := w.EventsOf("caller:" + ex.id)
	// terminal result: exactly one
	var term []Event
	nResp := 0
	for _, e := range ce {
		switch e.Op {
		case "invoke":
			term = append(term, e)
			if e.OK() {
				nResp++
			}
		case "recv":
			if !e.OK() {
				term = append(term, e)
			} else {
				nResp++
			}
		case "new":
			if !e.OK() {
				term = append(term, e)
			}
		}
	}
	if len(term) == 0 {
		bad("no-terminal-result", "the caller never obtained a terminal result")
		return vs
	}
	t := term[0]
	gotCode := t.Code
	if gotCode == "EOF" {
		gotCode = "OK"
	}
	if gotCode != ex.code.String() {
		bad("status-code", fmt.Sprintf("caller got %s(%s), handler returned %s(%s)", t.Code, t.Err, ex.code, ex.msg))
		return vs
	}
	if ex.code != codes.OK {
		if t.Err != ex.msg {
			bad("status-message", fmt.Sprintf("caller got message %q, handler returned %q", t.Err, ex.msg))
		}
		want := errDetail(MakeStatus(ex.code, ex.msg, ex.details).Err())
		if t.Detail != want {
			bad("status-details", fmt.Sprintf("caller got %q, handler returned %q", t.Detail, want))
		}
	}
	// later terminal results must repeat the first
	for _, o := range term[1:] {
		if o.Code != t.Code || o.Err != t.Err {
			bad("terminal-result-stable", fmt.Sprintf("first terminal result %s(%s), later %s(%s)", t.Code, t.Err, o.Code, o.Err))
		}
	}
	if ex.nResp >= 0 && nResp != ex.nResp {
		bad("response-count", fmt.Sprintf("caller received %d response messages, handler sent %d", nResp, ex.nResp))
	}
	// headers / trailers
	termStep := t.Step
	for _, e := range ce {
		switch e.Op {
		case "header":
			if e.OK() && e.Detail != mdString(ex.header) && ex.checkHdr {
				bad("header", fmt.Sprintf("Header() = %s, handler set %s", e.Detail, mdString(ex.header)))
			}
			if !e.OK() && ex.code == codes.OK {
				bad("header", fmt.Sprintf("Header() failed with %s(%s) on a successful RPC", e.Code, e.Err))
			}
		case "trailer":
			if e.Step >= termStep && e.Detail != mdString(ex.trailer) {
				bad("trailer", fmt.Sprintf("Trailer() after the terminal result = %s, handler set %s", e.Detail, mdString(ex.trailer)))
			}
		case "targets":
			if e.Step < termStep {
				continue
			}
			for _, f := range strings.Fields(e.Detail) {
				if ex.trlOpt && strings.HasPrefix(f, "trlT=") && f != "trlT="+mdString(ex.trailer) && !strings.Contains(mdString(ex.trailer), " ") {
					bad("trailer-option", fmt.Sprintf("grpc.Trailer target after the terminal result: %s, handler set %s", f, mdString(ex.trailer)))
				}
				if ex.hdrOpt && ex.checkHdr && strings.HasPrefix(f, "hdrT=") && f != "hdrT="+mdString(ex.header) && !strings.Contains(mdString(ex.header), " ") {
					bad("header-option", fmt.Sprintf("grpc.Header target after the terminal result: %s, handler set %s", f, mdString(ex.header)))
				}
			}
		}
	}
	if ex.reqMD != nil {
		for _, e := range w.EventsOf("handler:" + ex.id) {
			if e.Op == "ctx" {
				got := strings.TrimPrefix(strings.Fields(e.Detail + " ")[0], "md=")
				// mdString has spaces between keys: recover the whole "md=..." prefix
				if i := strings.Index(e.Detail, " deadline="); i > 0 {
					got = strings.TrimPrefix(e.Detail[:i], "md=")
				}
				if got != mdString(ex.reqMD) {
					bad("request-metadata", fmt.Sprintf("handler saw %s, caller attached %s", got, mdString(ex.reqMD)))
				}
			}
		}
	}
	return dedupeViolations(vs)
}

type testCreds struct{ md map[string]string }

func (c testCreds) GetRequestMetadata(ctx context.Context, uri ...string) (map[string]string, error) {
	return c.md, nil
}
func (c testCreds) RequireTransportSecurity() bool { return false }

func c02Scenarios(tier string) []*Scenario {
	var scs []*Scenario
	thorough := tier == "thorough"
	mk := func(name, desc string, cfg TunCfg, wl Workload, ex metaExpect, class string, opt Options) {
		scs = append(scs, &Scenario{Name: name, Prop: "C02", Desc: desc, Opt: opt,
			Run: func(w *World) { RunWorkloads(w, cfg, []Workload{wl}) },
			Check: func(w *World, x *Exec) []Violation {
				vs := NoHang(x, "C02")
				return append(vs, metaOracle(w, x, ex, class)...)
			}})
	}
	// I1: statuses
	msgs := []string{"", "plain ascii message", "non-ascii ✓ üñí 日本", strings.Repeat("0123456789", 30)}
	for c := codes.OK; c <= codes.Unauthenticated; c++ {
		for mi, msg := range msgs {
			for det := 0; det <= 2; det++ {
				if c == codes.OK && (mi > 0 || det > 0) {
					continue
				}
				for _, shape := range []string{"Unary", "Bidi"} {
					wl := StdWorkload("r1", 1, shape, []int{3}, []int{3})
					ex := metaExpect{id: "r1", code: c, msg: msg, details: det, nResp: -1}
					if c != codes.OK {
						wl.Handler.Ops[len(wl.Handler.Ops)-1] = HOp{K: "return", Code: c, Msg: msg, Details: det}
					}
					b := 0
					if thorough {
						b = 1
					}
					mk(fmt.Sprintf("c02/i1/%s/%s/m%d/d%d", shape, c, mi, det),
						fmt.Sprintf("%s RPC whose handler returns status %s, message #%d, %d details; caller's terminal status must be identical", shape, c, mi, det),
						TunCfg{}, wl, ex, "", Options{Level: "io", Bound: b})
				}
			}
		}
	}
	// I5: a handler that rejects without reading its request (authorisation-style): its status
	// and trailers reach the caller exactly, also when the rejection overtakes the caller's own
	// sends (every synchronisation operation of the caller's send path is a scheduling point; all
	// schedules with <= 2 deviations)
	for _, cfg := range []TunCfg{{}, {Reverse: true}, {ServerNoFC: true}} {
		for _, shape := range []string{"Unary", "ClientStream", "Bidi", "Unary/rev", "ClientStream/rev", "Bidi/rev"} {
			// "/rev": second family of default schedules (the caller runs last instead of first)
			rev := strings.HasSuffix(shape, "/rev")
			name := shape
			shape := strings.TrimSuffix(shape, "/rev")
			wl := StdWorkload("r1", 1, shape, []int{3}, []int{3})
			tmd := metadata.Pairs("why", "denied")
			wl.Handler.Ops = []HOp{{K: "settrl", MD: tmd}, {K: "return", Code: codes.PermissionDenied, Msg: "rejected unread", Details: 1}}
			ex := metaExpect{id: "r1", code: codes.PermissionDenied, msg: "rejected unread", details: 1, trailer: tmd, nResp: -1}
			mk(fmt.Sprintf("c02/i5/%s/%s", cfg, name),
				fmt.Sprintf("%s RPC over %s whose handler rejects it (PermissionDenied, one detail, a trailer) without reading the request; the rejection may overtake the caller's sends", shape, cfg),
				cfg, wl, ex, "", Options{Level: "focus", Bound: 2, RevOrder: rev, Focus: []string{"Invoke", "NewStream", "newStream", "SendMsg", "send", "CloseSend", "RecvMsg", "readMsg", "finishStream", "cancelStream"}})
		}
	}
	// I2: request metadata x headers x trailers
	mdAlpha := []metadata.MD{nil, {}, {"a": {"1"}}, {"a": {"1", "2"}}, {"a": {"1"}, "b": {""}}, {"k-bin": {"\x00\xff\x80"}}}
	mdName := []string{"absent", "empty", "a1", "a12", "a1b", "bin"}
	for ri, rmd := range mdAlpha {
		for hi, hmd := range mdAlpha {
			for ti, tmd := range mdAlpha {
				for _, shape := range []string{"Unary", "Bidi"} {
					if !thorough && (ri+hi+ti)%2 == 1 && shape == "Bidi" {
						continue
					}
					wl := StdWorkload("r1", 1, shape, []int{3}, []int{3})
					wl.Call.MD = rmd
					var pre []HOp
					pre = append(pre, HOp{K: "readctx"})
					if hmd != nil {
						pre = append(pre, HOp{K: "sethdr", MD: hmd})
					}
					if tmd != nil {
						pre = append(pre, HOp{K: "settrl", MD: tmd})
					}
					wl.Handler.Ops = append(pre, wl.Handler.Ops...)
					if shape == "Bidi" {
						wl.Call.Ops = []COp{{K: "new"}, {K: "send", Size: 3}, {K: "closesend"}, {K: "header"}, {K: "recvall"}, {K: "trailer"}}
					} else {
						wl.Call.HeaderOpt, wl.Call.TrailerOpt = true, true
						wl.Call.Ops = append(wl.Call.Ops, COp{K: "targets"})
					}
					req := rmd
					if req == nil {
						req = metadata.MD{}
					}
					ex := metaExpect{id: "r1", code: codes.OK, header: hmd, trailer: tmd, reqMD: req, nResp: 1, checkHdr: true, hdrOpt: true, trlOpt: true}
					class := ""
					if mdHasNonUTF8(rmd, hmd, tmd) {
						class = ":non-utf8-bin-value"
					}
					mk(fmt.Sprintf("c02/i2/%s/req=%s/hdr=%s/trl=%s", shape, mdName[ri], mdName[hi], mdName[ti]),
						fmt.Sprintf("%s RPC with request metadata %s, response headers %s, trailers %s", shape, mdString(rmd), mdString(hmd), mdString(tmd)),
						TunCfg{}, wl, ex, class, Options{Level: "io", Bound: 0})
				}
			}
		}
	}
	// I3: every handler operation sequence of length <= L followed by Return OK | error
	h1, h2, h3 := metadata.Pairs("h", "1"), metadata.Pairs("h", "2", "g", "x"), metadata.Pairs("s", "3")
	t1, t2 := metadata.Pairs("t", "1"), metadata.Pairs("t", "2", "u", "y")
	alpha := []HOp{{K: "sethdr", MD: h1}, {K: "sethdr", MD: h2}, {K: "sendhdr", MD: h3}, {K: "send", Size: 3}, {K: "settrl", MD: t1}, {K: "settrl", MD: t2}}
	maxLen := 3
	if thorough {
		maxLen = 4
	}
	var seqs [][]int
	var gen func(cur []int)
	gen = func(cur []int) {
		seqs = append(seqs, append([]int{}, cur...))
		if len(cur) == maxLen {
			return
		}
		for i := range alpha {
			gen(append(cur, i))
		}
	}
	gen(nil)
	for si, seq := range seqs {
		for _, shape := range []string{"ServerStream", "Bidi"} {
			for _, fail := range []bool{false, true} {
				wl := StdWorkload("r1", 1, shape, []int{3}, nil)
				ops := []HOp{{K: "recv"}}
				if shape == "Bidi" {
					ops = []HOp{{K: "recvall"}}
				}
				ex := metaExpect{id: "r1", code: codes.OK, nResp: 0, checkHdr: true}
				hdrSent := false
				var hdr, trl metadata.MD
				for _, i := range seq {
					op := alpha[i]
					ops = append(ops, op)
					switch op.K {
					case "sethdr":
						if !hdrSent {
							hdr = metadata.Join(hdr, op.MD)
						}
					case "sendhdr":
						if !hdrSent {
							hdr = metadata.Join(hdr, op.MD)
							hdrSent = true
						}
					case "send":
						hdrSent = true
						ex.nResp++
					case "settrl":
						trl = metadata.Join(trl, op.MD)
					}
				}
				if fail {
					ops = append(ops, HOp{K: "return", Code: codes.FailedPrecondition, Msg: "scripted failure"})
					ex.code, ex.msg = codes.FailedPrecondition, "scripted failure"
				} else {
					ops = append(ops, HOp{K: "return"})
				}
				ex.header, ex.trailer = hdr, trl
				wl.Handler.Ops = ops
				wl.Handler.KeepGoing = true
				wl.Call.Ops = []COp{{K: "new"}, {K: "send", Size: 3}, {K: "closesend"}, {K: "header"}, {K: "recvall"}, {K: "trailer"}}
				mk(fmt.Sprintf("c02/i3/%s/s%d/%v/fail=%v", shape, si, seq, fail),
					fmt.Sprintf("%s RPC whose handler performs ops %v of {SetHeader h1, SetHeader h2, SendHeader h3, Send, SetTrailer t1, SetTrailer t2} then returns (fail=%v); reference: gRPC header/trailer rules", shape, seq, fail),
					TunCfg{}, wl, ex, "", Options{Level: "io", Bound: 0})
			}
		}
	}
	// I4: call-option subsets x shapes
	for mask := 0; mask < 16; mask++ {
		for creds := 0; creds < 5; creds++ {
			for _, shape := range []string{"Unary", "ClientStream", "ServerStream", "Bidi"} {
				for _, rev := range []bool{false, true} {
					if !thorough && rev && mask%5 != 0 {
						continue
					}
					req, resp := shapesReqResp(shape, []int{3})
					wl := StdWorkload("r1", 1, shape, req, resp)
					c := &wl.Call
					c.HeaderOpt, c.TrailerOpt, c.PeerOpt, c.ChanOpt = mask&1 != 0, mask&2 != 0, mask&4 != 0, mask&8 != 0
					hmd, tmd := metadata.Pairs("h", "1"), metadata.Pairs("t", "1")
					wl.Handler.Ops = append([]HOp{{K: "readctx"}, {K: "sethdr", MD: hmd}, {K: "settrl", MD: tmd}}, wl.Handler.Ops...)
					reqMD := metadata.MD{"x": {"y"}}
					c.MD = metadata.MD{"x": {"y"}}
					class := ""
					switch creds {
					case 1:
						c.Creds = testCreds{map[string]string{"authorization": "tok"}}
						reqMD["authorization"] = []string{"tok"}
					case 2:
						// credentials without any outgoing metadata
						c.Creds = testCreds{map[string]string{"authorization": "tok"}}
						c.MD, c.NoScriptKey = nil, true
						reqMD = metadata.MD{"authorization": {"tok"}}
						class = ":creds-without-outgoing-metadata"
					case 4:
						// the credentials use a key that the outgoing context (and a second value
						// of the credentials' own) also uses: the key becomes multi-valued
						c.MD = metadata.MD{"x": {"y"}, "authorization": {"from-ctx"}}
						c.Creds = testCreds{map[string]string{"authorization": "from-creds"}}
						reqMD = metadata.MD{"x": {"y"}, "authorization": {"from-ctx", "from-creds"}}
						class = ":creds-key-collision"
					case 3:
						// no request metadata of any kind: the handler must see none (in
						// particular not the metadata of the tunnel-opening call)
						c.MD, c.NoScriptKey = nil, true
						reqMD = metadata.MD{}
						class = ":no-request-metadata"
					}
					c.Ops = append(c.Ops, COp{K: "targets"})
					ex := metaExpect{id: "r1", code: codes.OK, header: hmd, trailer: tmd, reqMD: reqMD, nResp: len(resp), checkHdr: true, hdrOpt: c.HeaderOpt, trlOpt: c.TrailerOpt}
					hs := wl.Handler
					sc := &Scenario{Name: fmt.Sprintf("c02/i4/%s/rev=%v/opts=%04b/creds=%d", shape, rev, mask, creds), Prop: "C02",
						Desc: fmt.Sprintf("%s RPC with call options {Header:%v Trailer:%v Peer:%v WithTunnelChannel:%v} and per-RPC credentials mode %d (0 none, 1 with outgoing metadata, 2 credentials without any outgoing metadata, 3 no request metadata at all, 4 credentials whose key collides with context metadata)", shape, c.HeaderOpt, c.TrailerOpt, c.PeerOpt, c.ChanOpt, creds),
						Opt:  Options{Level: "io", Bound: 0},
						Run: func(w *World) {
							w.Scripts["*"] = &hs
							RunWorkloads(w, TunCfg{Reverse: rev}, []Workload{wl})
						},
						Check: func(w *World, x *Exec) []Violation {
							vs := NoHang(x, "C02")
							return append(vs, metaOracle(w, x, ex, class)...)
						}}
					scs = append(scs, sc)
				}
			}
		}
	}
	// S: fine-grained schedules around the publication of headers, messages and trailers
	focus := []string{"finishStream", "acceptServerFrame", "Header", "Trailer", "readMsg", "readMsgLocked", "RecvMsg", "Invoke", "dequeue", "handleClosure", "close", "cancelStream", "removeStream"}
	sb := 2
	if thorough {
		sb = 3
	}
	for _, shape := range []string{"Unary", "ClientStream", "ServerStream", "Bidi"} {
		for _, fail := range []bool{false, true} {
			for _, revOrder := range []bool{false, true} {
				req, resp := shapesReqResp(shape, []int{3})
				wl := StdWorkload("r1", 1, shape, req, resp)
				hmd, tmd := metadata.Pairs("h", "1"), metadata.Pairs("t", "1")
				wl.Handler.Ops = append([]HOp{{K: "sethdr", MD: hmd}, {K: "settrl", MD: tmd}}, wl.Handler.Ops...)
				ex := metaExpect{id: "r1", code: codes.OK, header: hmd, trailer: tmd, nResp: len(resp), checkHdr: true, hdrOpt: true, trlOpt: true}
				if fail {
					wl.Handler.Ops[len(wl.Handler.Ops)-1] = HOp{K: "return", Code: codes.Aborted, Msg: "scripted"}
					ex.code, ex.msg, ex.nResp = codes.Aborted, "scripted", -1
				}
				wl.Call.HeaderOpt, wl.Call.TrailerOpt = true, true
				if shape == "Unary" {
					wl.Call.Ops = []COp{{K: "invoke", Size: 3}, {K: "targets"}}
				} else {
					wl.Call.Ops = []COp{{K: "new"}}
					for range req {
						wl.Call.Ops = append(wl.Call.Ops, COp{K: "send", Size: 3})
					}
					wl.Call.Ops = append(wl.Call.Ops, COp{K: "closesend"}, COp{K: "header"}, COp{K: "recvall"}, COp{K: "trailer"}, COp{K: "targets"})
				}
				mk(fmt.Sprintf("c02/s/%s/fail=%v/rev=%v", shape, fail, revOrder),
					fmt.Sprintf("%s RPC (fail=%v) with headers and trailers; every lock/atomic/channel operation in the client's completion path is a scheduling point; Trailer() and the option targets are read immediately after the terminal result; <= %d deviations", shape, fail, sb),
					TunCfg{}, wl, ex, "", Options{Level: "focus", Focus: focus, Bound: sb, RevOrder: revOrder})
			}
		}
	}
	return scs
}

func init() {
	register(&PropDef{ID: "C02", Level: "model_checking",
		Rule:      "input enumeration (17 codes x messages x details; 6^3 request/header/trailer metadata maps; all handler op sequences of length <= 3 (quick) / 4 (thorough) over {SetHeader h1/h2, SendHeader, Send, SetTrailer t1/t2} x {OK,error}; all call-option subsets x credentials modes) at the default schedule, plus deviation-bounded DFS (D<=2 quick, 3 thorough) at lock/atomic/channel granularity of the client's completion path; oracle META: caller-visible status, Header(), Trailer(), option targets and handler-visible request metadata equal the scripted values, with Trailer()/targets read immediately after the terminal result",
		Globals:   []func(*Scenario, *World, *Exec) []Violation{ProtoMonitor},
		Scenarios: c02Scenarios})
}
