package harness

import (
	"fmt"
	"strings"
	"time"

	"google.golang.org/grpc/codes"
)

func chanDone(t *Tun) bool {
	if t.Ch == nil {
		return true
	}
	select {
	case <-t.Ch.Done():
		return true
	default:
		return false
	}
}

// c04Workloads are RPCs that each get stuck in a different phase until the tunnel ends.
func c04Workloads(fc bool) []Workload {
	big := 200000
	var wls []Workload
	// U before headers: handler waits
	w1 := StdWorkload("u", 1, "Unary", []int{3}, []int{3})
	w1.Handler.Ops = []HOp{{K: "recv"}, {K: "waitctx"}, {K: "return", Code: codes.Aborted, Msg: "ctx done"}}
	// SS mid-message, sender blocked (window / hand-off): caller does not read until the tunnel ends
	w2 := StdWorkload("ss", 2, "ServerStream", []int{3}, nil)
	w2.Call.Ops = []COp{{K: "new"}, {K: "send", Size: 3}, {K: "closesend"}, {K: "waitfault"}, {K: "recvall"}}
	w2.Handler.Ops = []HOp{{K: "recv"}, {K: "send", Size: big}, {K: "waitctx"}, {K: "return", Code: codes.Aborted, Msg: "ctx done"}}
	w2.Handler.KeepGoing = true
	// CS with the caller blocked sending: handler does not read
	w3 := StdWorkload("cs", 3, "ClientStream", nil, nil)
	w3.Call.Ops = []COp{{K: "new"}, {K: "send", Size: big}, {K: "closesend"}, {K: "recvall"}}
	// (the handler does not read even after its context ended: nothing but the library's own
	// tear-down may unblock a receive loop that is handing it a frame)
	w3.Handler.Ops = []HOp{{K: "waitctx"}, {K: "return", Code: codes.Aborted, Msg: "ctx done"}}
	w3.Handler.KeepGoing = true
	// B half-closed awaiting trailers
	w4 := StdWorkload("b", 4, "Bidi", []int{3}, nil)
	w4.Handler.Ops = []HOp{{K: "recvall"}, {K: "send", Size: 3}, {K: "waitctx"}, {K: "send", Size: 3}, {K: "return", Code: codes.Aborted, Msg: "ctx done"}}
	w4.Handler.KeepGoing = true
	// caller blocked in Header()
	w5 := StdWorkload("h", 5, "Bidi", nil, nil)
	w5.Call.Ops = []COp{{K: "new"}, {K: "header"}, {K: "recvall"}}
	w5.Handler.Ops = []HOp{{K: "waitctx"}, {K: "return", Code: codes.Aborted, Msg: "ctx done"}}
	wls = append(wls, w1, w2, w3, w4, w5)
	return wls
}

func c04Scenarios(tier string) []*Scenario {
	var scs []*Scenario
	thorough := tier == "thorough"
	type cause struct {
		name  string
		rev   bool
		clean bool
	}
	causes := []cause{
		{"chclose", false, true}, {"openctx", false, false}, {"break", false, false}, {"opendeadline", false, false},
		{"chclose", true, true}, {"stop", true, true}, {"gstop-stop", true, true}, {"openctx", true, false}, {"break", true, false},
	}
	sets := map[string][]int{"all": {0, 1, 2, 3, 4}, "u": {0}, "ss": {1}, "cs": {2}, "b": {3}, "h": {4}, "idle": {}}
	order := []string{"idle", "u", "ss", "cs", "b", "h", "all"}
	for _, c := range causes {
		for _, noFC := range []bool{false, true} {
			for _, setName := range order {
				c, noFC, setName := c, noFC, setName
				cfg := TunCfg{Reverse: c.rev, ServerNoFC: noFC}
				opt := Options{Level: "io", Bound: 2, DevOK: oneFaultAnyOrder}
				if setName == "all" || tier == "lite" {
					opt = Options{Level: "io", Bound: 1, DevOK: onlyFaults}
				}
				if thorough {
					opt = Options{Level: "chan", Bound: 2, DevOK: oneFaultAnyOrder}
					if setName == "all" {
						opt = Options{Level: "io", Bound: 2, DevOK: oneFaultAnyOrder}
					}
				}
				switch c.name {
				case "break":
					cfg.WithBreak = true
				case "opendeadline":
					cfg.OpenTimeout = 1500 * time.Millisecond
					opt.Horizon = 2
				}
				all := c04Workloads(!noFC)
				var wls []Workload
				for _, i := range sets[setName] {
					wls = append(wls, all[i])
				}
				scs = append(scs, &Scenario{
					Name: fmt.Sprintf("c04/%s/%s/%s", cfg, c.name, setName), Prop: "C04",
					Desc: fmt.Sprintf("tunnel %s with in-flight RPCs {%s} each stuck in a different phase; termination cause %q strikes at every quiescent point; then Done/Err are read and one more RPC is started", cfg, setName, c.name),
					Opt:  opt,
					Run: func(w *World) {
						t := w.OpenTunnel(cfg)
						if t.StartErr != nil {
							w.Log(Event{Actor: "env", Op: "start", Err: t.StartErr.Error(), Code: "start-failed"})
							return
						}
						if c.name != "break" && c.name != "opendeadline" {
							w.StartFault(t, c.name)
						}
						w.Join(w.StartCallers(t, wls)...)
						w.WaitUntil("tunnel-done", func() bool { return chanDone(t) })
						w.Point("env:err")
						em, ec := errFields(t.Ch.Err())
						w.Log(Event{Actor: "env", Op: "err", Err: em, Code: ec})
						// an RPC started afterwards must fail at once
						post := StdWorkload("post", 9, "Unary", []int{3}, []int{3})
						w.Scripts["post"] = &post.Handler
						w.RunCall(t.Ch, &post.Call)
						if cfg.Reverse {
							post2 := StdWorkload("post2", 10, "Unary", []int{3}, []int{3})
							w.Scripts["post2"] = &post2.Handler
							w.RunCall(t.Conn, &post2.Call)
						}
						t.AwaitEnd()
						t.Cancel()
						w.Drain()
					},
					Check: func(w *World, x *Exec) []Violation {
						vs := NoHang(x, "C04")
						if x.Hang {
							return vs
						}
						bad := func(rule, sig, d string) {
							vs = append(vs, Violation{Prop: "C04", Rule: rule, Sig: sig, Detail: d + "\n" + w.Outcome()})
						}
						for _, wl := range wls {
							id := wl.Call.ID
							for _, e := range w.EventsOf("caller:" + id) {
								if (e.Op == "invoke" && e.OK()) || (e.Op == "recv" && e.Code == "EOF") {
									bad("in-flight-calls-fail", "term:call-ended-ok:"+id, fmt.Sprintf("rpc %s ended OK although its handler never finished normally", id))
								}
							}
							// every scripted handler waits for its context (or fails in a blocked
							// read/write), so "it returned" is the observable form of "its context
							// was cancelled and its blocked operations returned"
							inv, done := false, false
							for _, e := range w.EventsOf("handler:" + id) {
								if e.Op == "invoked" {
									inv = true
								}
								if e.Op == "returned" {
									done = true
								}
							}
							if inv && !done {
								bad("handler-contexts-cancelled", "term:handler-never-returned:"+id, fmt.Sprintf("handler %s was invoked but never returned", id))
							}
						}
						for _, e := range w.EventsOf("env") {
							if e.Op == "err" {
								if c.clean && !e.OK() && w.FaultStep(c.name) >= 0 && onlyThisFault(w, c.name) {
									bad("err-nil-after-clean-close", "term:err-after-clean-close:"+c.name, fmt.Sprintf("Err() = %s(%s) after a clean close", e.Code, e.Err))
								}
								if !c.clean && e.OK() {
									bad("err-is-cause", "term:err-nil-after-"+c.name, "Err() = nil although the tunnel ended abnormally")
								}
							}
						}
						for _, id := range []string{"post", "post2"} {
							for _, e := range w.EventsOf("caller:" + id) {
								if e.Op == "invoke" && e.OK() {
									bad("later-rpcs-fail", "term:later-rpc-succeeded", "an RPC started after the tunnel ended succeeded")
								}
							}
						}
						if cfg.Reverse {
							ret := false
							for _, e := range w.Events {
								if e.Op == "serve-returned" {
									ret = true
								}
							}
							if !ret {
								bad("serve-returns", "term:serve-did-not-return", "Serve never returned")
							}
						}
						vs = append(vs, NoLeak(w, x, "C04")...)
						return vs
					},
				})
			}
		}
	}
	// a watcher that waits for Done() and reads Err() at once: what it reads is already the
	// final answer (nil after a clean close)
	for _, c := range causes {
		if !c.clean {
			continue
		}
		for _, revOrder := range []bool{false, true} {
			for _, setName := range []string{"idle", "b"} {
				c, revOrder, setName := c, revOrder, setName
				cfg := TunCfg{Reverse: c.rev}
				all := c04Workloads(true)
				var wls []Workload
				for _, i := range sets[setName] {
					wls = append(wls, all[i])
				}
				scs = append(scs, &Scenario{
					Name: fmt.Sprintf("c04/watch/%s/%s/%s/rev=%v", cfg, c.name, setName, revOrder), Prop: "C04",
					Desc: fmt.Sprintf("tunnel %s (in flight: {%s}) is ended cleanly by %q at every quiescent point while another goroutine waits for Done() and reads Err() immediately", cfg, setName, c.name),
					Opt:  Options{Level: "focus", Focus: []string{"close", "Close", "Err", "recvLoop", "Stop", "openReverseTunnel"}, Bound: 2, DevOK: oneFaultAnyOrder, RevOrder: revOrder},
					Run: func(w *World) {
						t := w.OpenTunnel(cfg)
						if t.StartErr != nil {
							return
						}
						watcher := w.Go("watch:done", true, func() {
							w.WaitUntil("watch:done", func() bool { return chanDone(t) })
							em, ec := errFields(t.Ch.Err())
							w.Log(Event{Actor: "watch", Op: "err-at-done", Err: em, Code: ec})
						})
						w.StartFault(t, c.name)
						w.Join(w.StartCallers(t, wls)...)
						w.Join(watcher)
						t.AwaitEnd()
						t.Cancel()
						w.Drain()
					},
					Check: func(w *World, x *Exec) []Violation {
						vs := NoHang(x, "C04")
						if x.Hang {
							return vs
						}
						for _, e := range w.EventsOf("watch") {
							if e.Op == "err-at-done" && !e.OK() && w.FaultStep(c.name) >= 0 && onlyThisFault(w, c.name) {
								vs = append(vs, Violation{Prop: "C04", Rule: "err-nil-after-clean-close", Sig: "term:err-at-done-after-clean-close:" + c.name,
									Detail: fmt.Sprintf("a goroutine that waited for Done() read Err() = %s(%s) although the tunnel was closed cleanly (%s)\n%s", e.Code, e.Err, c.name, w.Outcome())})
							}
						}
						return vs
					},
				})
			}
		}
	}
	return scs
}

// onlyThisFault reports whether kind is the only fault that struck.
func onlyThisFault(w *World, kind string) bool {
	for _, e := range w.Events {
		if e.Actor == "fault" && e.Op != kind && !strings.HasSuffix(e.Op, "-returned") {
			return false
		}
	}
	return true
}

func init() {
	register(&PropDef{ID: "C04", Level: "fault_enumeration",
		Rule:      "every termination cause {Close on either end, opening-context cancel and deadline, Stop, carrier failure, Stop while a GracefulStop is pending} x {forward, reverse} x {flow control, revision zero} x in-flight RPC sets {none, one per phase, all five phases together} x every quiescent point of the run (quick: carrier/application granularity, the cause plus one further schedule deviation in either order for single-RPC sets, the cause alone for the five-phase set; thorough: every channel operation of the library is a scheduling point as well, and the five-phase set also gets the extra deviation); oracle TERM: no hang, every in-flight call non-OK, every handler context cancelled, Done closed, Err nil iff clean, Serve returned, a later RPC fails, nothing left behind; non-trivial = distinct orders of conflicting accesses",
		Globals:   []func(*Scenario, *World, *Exec) []Violation{ProtoMonitor},
		Scenarios: c04Scenarios})
}
