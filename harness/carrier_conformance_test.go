package harness

// Carrier conformance: the in-memory carrier (memconn) is part of the trusted base of every
// check, so its observable behaviour is compared, program by program, with real grpc-go
// running over google.golang.org/grpc/test/bufconn. Both run free (no scheduler installed);
// the programs synchronise client and server scripts explicitly so that the observations do
// not depend on timing.

import (
	"context"
	"fmt"
	"io"
	"net"
	"os"
	"strings"
	"testing"
	"time"

	"github.com/jhump/grpctunnel/tunnelpb"
	"github.com/jhump/grpctunnel/verifrt"
	"google.golang.org/grpc"
	"google.golang.org/grpc/codes"
	"google.golang.org/grpc/credentials/insecure"
	"google.golang.org/grpc/metadata"
	"google.golang.org/grpc/status"
	"google.golang.org/grpc/test/bufconn"
)

type confServer struct {
	tunnelpb.UnimplementedTunnelServiceServer
	script func(s tunnelpb.TunnelService_OpenTunnelServer, obs *obsLog) error
	obs    *obsLog
}

func (c *confServer) OpenTunnel(s tunnelpb.TunnelService_OpenTunnelServer) error {
	return c.script(s, c.obs)
}

type obsLog struct {
	ch chan string
}

func (o *obsLog) add(format string, a ...any) { o.ch <- fmt.Sprintf(format, a...) }

func code(err error) string {
	if err == nil {
		return "nil"
	}
	if err == io.EOF {
		return "EOF"
	}
	return status.Code(err).String()
}

// scode: on the server side a client deadline shows up as Canceled or DeadlineExceeded
// depending on which notice arrives first; the library treats them alike.
func scode(err error) string {
	c := code(err)
	if c == "DeadlineExceeded" {
		return "Canceled"
	}
	return c
}

func mdOf(md metadata.MD, keys ...string) string {
	var parts []string
	for _, k := range keys {
		parts = append(parts, fmt.Sprintf("%s=%v", k, md.Get(k)))
	}
	return strings.Join(parts, ",")
}

type confProgram struct {
	name   string
	server func(s tunnelpb.TunnelService_OpenTunnelServer, o *obsLog, sync chan string) error
	client func(ctx context.Context, cancel context.CancelFunc, cs tunnelpb.TunnelService_OpenTunnelClient, o *obsLog, sync chan string)
	// timeout for the client context (0 = none)
	timeout time.Duration
}

func frameC(id int64) *tunnelpb.ClientToServer { return fHalf(id) }
func frameS(id int64) *tunnelpb.ServerToClient {
	return fClose(id, codes.OK, "")
}

func confPrograms() []confProgram {
	bad := &tunnelpb.ClientToServer{StreamId: 1, Frame: &tunnelpb.ClientToServer_NewStream{NewStream: &tunnelpb.NewStream{MethodName: "\xff\xfe"}}}
	badS := &tunnelpb.ServerToClient{StreamId: 1, Frame: &tunnelpb.ServerToClient_ResponseHeaders{ResponseHeaders: &tunnelpb.Metadata{Md: map[string]*tunnelpb.Metadata_Values{"k": {Val: []string{"\xff"}}}}}}
	return []confProgram{
		{name: "return-ok-at-once",
			server: func(s tunnelpb.TunnelService_OpenTunnelServer, o *obsLog, sy chan string) error { return nil },
			client: func(ctx context.Context, cancel context.CancelFunc, cs tunnelpb.TunnelService_OpenTunnelClient, o *obsLog, sy chan string) {
				h, err := cs.Header()
				o.add("c.header len=%d err=%s", len(h), code(err))
				_, err = cs.Recv()
				o.add("c.recv %s", code(err))
				o.add("c.ctxdone %v", cs.Context().Err() != nil)
				o.add("c.send-after-end %s", code(cs.Send(frameC(1))))
			}},
		{name: "return-error-at-once",
			server: func(s tunnelpb.TunnelService_OpenTunnelServer, o *obsLog, sy chan string) error {
				s.SetTrailer(metadata.Pairs("t", "1"))
				return status.Error(codes.FailedPrecondition, "nope")
			},
			client: func(ctx context.Context, cancel context.CancelFunc, cs tunnelpb.TunnelService_OpenTunnelClient, o *obsLog, sy chan string) {
				h, err := cs.Header()
				o.add("c.header len=%d err=%s", len(h), code(err))
				_, err = cs.Recv()
				o.add("c.recv %s", code(err))
				o.add("c.trailer %s", mdOf(cs.Trailer(), "t"))
			}},
		{name: "sendheader-then-ok",
			server: func(s tunnelpb.TunnelService_OpenTunnelServer, o *obsLog, sy chan string) error {
				o.add("s.sendheader %s", code(s.SendHeader(metadata.Pairs("h", "1"))))
				o.add("s.sendheader-again %v", s.SendHeader(metadata.Pairs("h", "2")) != nil)
				o.add("s.setheader-after %v", s.SetHeader(metadata.Pairs("h", "3")) != nil)
				<-sy
				return nil
			},
			client: func(ctx context.Context, cancel context.CancelFunc, cs tunnelpb.TunnelService_OpenTunnelClient, o *obsLog, sy chan string) {
				h, err := cs.Header()
				o.add("c.header %s err=%s", mdOf(h, "h"), code(err))
				sy <- "go"
				_, err = cs.Recv()
				o.add("c.recv %s", code(err))
			}},
		{name: "setheader-implicit-with-first-message",
			server: func(s tunnelpb.TunnelService_OpenTunnelServer, o *obsLog, sy chan string) error {
				_ = s.SetHeader(metadata.Pairs("h", "1"))
				_ = s.SetHeader(metadata.Pairs("h", "2", "g", "x"))
				o.add("s.send %s", code(s.Send(frameS(1))))
				s.SetTrailer(metadata.Pairs("t", "1"))
				s.SetTrailer(metadata.Pairs("t", "2"))
				return nil
			},
			client: func(ctx context.Context, cancel context.CancelFunc, cs tunnelpb.TunnelService_OpenTunnelClient, o *obsLog, sy chan string) {
				m, err := cs.Recv()
				o.add("c.recv id=%d %s", m.GetStreamId(), code(err))
				h, err := cs.Header()
				o.add("c.header %s err=%s", mdOf(h, "h", "g"), code(err))
				_, err = cs.Recv()
				o.add("c.recv %s", code(err))
				o.add("c.trailer %s", mdOf(cs.Trailer(), "t"))
			}},
		{name: "closesend-then-server-eof-and-reply",
			server: func(s tunnelpb.TunnelService_OpenTunnelServer, o *obsLog, sy chan string) error {
				m, err := s.Recv()
				o.add("s.recv id=%d %s", m.GetStreamId(), code(err))
				_, err = s.Recv()
				o.add("s.recv %s", scode(err))
				o.add("s.send-after-halfclose %s", code(s.Send(frameS(2))))
				return status.Error(codes.Aborted, "bye")
			},
			client: func(ctx context.Context, cancel context.CancelFunc, cs tunnelpb.TunnelService_OpenTunnelClient, o *obsLog, sy chan string) {
				o.add("c.send %s", code(cs.Send(frameC(7))))
				o.add("c.closesend %s", code(cs.CloseSend()))
				m, err := cs.Recv()
				o.add("c.recv id=%d %s", m.GetStreamId(), code(err))
				_, err = cs.Recv()
				o.add("c.recv %s", code(err))
				_, err = cs.Recv()
				o.add("c.recv-again %s", code(err))
			}},
		{name: "client-cancel",
			server: func(s tunnelpb.TunnelService_OpenTunnelServer, o *obsLog, sy chan string) error {
				_ = s.SendHeader(nil)
				sy <- "ready"
				_, err := s.Recv()
				o.add("s.recv %s", scode(err))
				o.add("s.ctx %v", s.Context().Err() != nil)
				err = s.Send(frameS(1))
				o.add("s.send-after-cancel-fails %v", err != nil)
				return nil
			},
			client: func(ctx context.Context, cancel context.CancelFunc, cs tunnelpb.TunnelService_OpenTunnelClient, o *obsLog, sy chan string) {
				_, _ = cs.Header()
				<-sy
				cancel()
				_, err := cs.Recv()
				o.add("c.recv %s", code(err))
				o.add("c.send-after-cancel %s", code(cs.Send(frameC(1))))
			}},
		{name: "client-deadline-becomes-server-deadline", timeout: 30 * time.Second,
			server: func(s tunnelpb.TunnelService_OpenTunnelServer, o *obsLog, sy chan string) error {
				dl, ok := s.Context().Deadline()
				left := time.Until(dl)
				o.add("s.has-deadline %v about-30s=%v", ok, left > 25*time.Second && left <= 30*time.Second)
				return nil
			},
			client: func(ctx context.Context, cancel context.CancelFunc, cs tunnelpb.TunnelService_OpenTunnelClient, o *obsLog, sy chan string) {
				_, err := cs.Recv()
				o.add("c.recv %s", code(err))
			}},
		{name: "no-client-deadline-no-server-deadline",
			server: func(s tunnelpb.TunnelService_OpenTunnelServer, o *obsLog, sy chan string) error {
				_, ok := s.Context().Deadline()
				o.add("s.has-deadline %v", ok)
				return nil
			},
			client: func(ctx context.Context, cancel context.CancelFunc, cs tunnelpb.TunnelService_OpenTunnelClient, o *obsLog, sy chan string) {
				_, err := cs.Recv()
				o.add("c.recv %s", code(err))
			}},
		{name: "client-deadline", timeout: 200 * time.Millisecond,
			server: func(s tunnelpb.TunnelService_OpenTunnelServer, o *obsLog, sy chan string) error {
				_, err := s.Recv()
				o.add("s.recv %s", scode(err))
				return nil
			},
			client: func(ctx context.Context, cancel context.CancelFunc, cs tunnelpb.TunnelService_OpenTunnelClient, o *obsLog, sy chan string) {
				_, err := cs.Recv()
				o.add("c.recv %s", code(err))
				_, err = cs.Header()
				o.add("c.header-err %v", err != nil)
			}},
		{name: "client-deadline-in-header", timeout: 200 * time.Millisecond,
			server: func(s tunnelpb.TunnelService_OpenTunnelServer, o *obsLog, sy chan string) error {
				_, err := s.Recv()
				o.add("s.recv %s", scode(err))
				return nil
			},
			client: func(ctx context.Context, cancel context.CancelFunc, cs tunnelpb.TunnelService_OpenTunnelClient, o *obsLog, sy chan string) {
				h, err := cs.Header()
				o.add("c.header len=%d %s", len(h), code(err))
				_, err = cs.Recv()
				o.add("c.recv %s", code(err))
			}},
		{name: "client-cancel-in-header",
			server: func(s tunnelpb.TunnelService_OpenTunnelServer, o *obsLog, sy chan string) error {
				sy <- "ready"
				_, err := s.Recv()
				o.add("s.recv %s", scode(err))
				return nil
			},
			client: func(ctx context.Context, cancel context.CancelFunc, cs tunnelpb.TunnelService_OpenTunnelClient, o *obsLog, sy chan string) {
				<-sy
				go func() { time.Sleep(100 * time.Millisecond); cancel() }()
				h, err := cs.Header()
				o.add("c.header len=%d %s", len(h), code(err))
			}},
		{name: "header-after-error-status-with-headers",
			server: func(s tunnelpb.TunnelService_OpenTunnelServer, o *obsLog, sy chan string) error {
				_ = s.SendHeader(metadata.Pairs("h", "1"))
				return status.Error(codes.Aborted, "x")
			},
			client: func(ctx context.Context, cancel context.CancelFunc, cs tunnelpb.TunnelService_OpenTunnelClient, o *obsLog, sy chan string) {
				_, err := cs.Recv()
				o.add("c.recv %s", code(err))
				h, err := cs.Header()
				o.add("c.header %s %s", mdOf(h, "h"), code(err))
			}},
		{name: "client-sends-unmarshalable",
			server: func(s tunnelpb.TunnelService_OpenTunnelServer, o *obsLog, sy chan string) error {
				_, err := s.Recv()
				o.add("s.recv-fails %v", err != nil)
				o.add("s.ctx %v", waitDone(s.Context()))
				return nil
			},
			client: func(ctx context.Context, cancel context.CancelFunc, cs tunnelpb.TunnelService_OpenTunnelClient, o *obsLog, sy chan string) {
				o.add("c.send %s", code(cs.Send(bad)))
				o.add("c.ctxdone %v", waitDone(cs.Context()))
				o.add("c.send-again %s", code(cs.Send(frameC(1))))
				_, err := cs.Recv()
				o.add("c.recv-fails %v", err != nil)
			}},
		{name: "server-sends-unmarshalable",
			server: func(s tunnelpb.TunnelService_OpenTunnelServer, o *obsLog, sy chan string) error {
				o.add("s.send %s", code(s.Send(badS)))
				err := s.Send(frameS(1))
				o.add("s.send-again-fails %v", err != nil)
				return nil
			},
			client: func(ctx context.Context, cancel context.CancelFunc, cs tunnelpb.TunnelService_OpenTunnelClient, o *obsLog, sy chan string) {
				_, err := cs.Recv()
				o.add("c.recv %s", code(err))
			}},
		{name: "request-metadata",
			server: func(s tunnelpb.TunnelService_OpenTunnelServer, o *obsLog, sy chan string) error {
				md, _ := metadata.FromIncomingContext(s.Context())
				o.add("s.md %s", mdOf(md, "a", "b-bin"))
				return nil
			},
			client: func(ctx context.Context, cancel context.CancelFunc, cs tunnelpb.TunnelService_OpenTunnelClient, o *obsLog, sy chan string) {
				_, err := cs.Recv()
				o.add("c.recv %s", code(err))
			}},
		{name: "messages-drain-before-status",
			server: func(s tunnelpb.TunnelService_OpenTunnelServer, o *obsLog, sy chan string) error {
				for i := 0; i < 3; i++ {
					_ = s.Send(frameS(int64(i)))
				}
				return status.Error(codes.DataLoss, "x")
			},
			client: func(ctx context.Context, cancel context.CancelFunc, cs tunnelpb.TunnelService_OpenTunnelClient, o *obsLog, sy chan string) {
				time.Sleep(50 * time.Millisecond)
				for i := 0; i < 4; i++ {
					m, err := cs.Recv()
					o.add("c.recv id=%d %s", m.GetStreamId(), code(err))
				}
			}},
	}
}

func waitDone(ctx context.Context) bool {
	select {
	case <-ctx.Done():
		return true
	case <-time.After(2 * time.Second):
		return false
	}
}

func runConf(t *testing.T, p confProgram, useMem bool) []string {
	o := &obsLog{ch: make(chan string, 256)}
	sy := make(chan string, 4)
	srv := &confServer{obs: o, script: func(s tunnelpb.TunnelService_OpenTunnelServer, o *obsLog) error { return p.server(s, o, sy) }}
	var conn grpc.ClientConnInterface
	cleanup := func() {}
	if useMem {
		w := &World{S: verifrt.New(), Vals: map[string]any{}, Scripts: map[string]*HandlerScript{}, Start: time.Now()}
		w.Tap = &Tap{w: w, next: map[string]int{}}
		n := NewNet(w, "T")
		tunnelpb.RegisterTunnelServiceServer(n, srv)
		conn = n
	} else {
		lis := bufconn.Listen(1 << 20)
		gs := grpc.NewServer()
		tunnelpb.RegisterTunnelServiceServer(gs, srv)
		go func() { _ = gs.Serve(lis) }()
		cc, err := grpc.NewClient("passthrough:///bufnet", grpc.WithContextDialer(func(context.Context, string) (net.Conn, error) { return lis.Dial() }),
			grpc.WithTransportCredentials(insecure.NewCredentials()))
		if err != nil {
			t.Fatal(err)
		}
		conn = cc
		cleanup = func() { cc.Close(); gs.Stop() }
	}
	defer cleanup()
	ctx, cancel := context.WithCancel(context.Background())
	if p.timeout > 0 {
		ctx, cancel = context.WithTimeout(context.Background(), p.timeout)
	}
	defer cancel()
	ctx = metadata.NewOutgoingContext(ctx, metadata.MD{"a": {"1", "2"}, "b-bin": {"\x00\xff"}})
	cs, err := tunnelpb.NewTunnelServiceClient(conn).OpenTunnel(ctx)
	if err != nil {
		return []string{"open " + code(err)}
	}
	done := make(chan struct{})
	go func() { p.client(ctx, cancel, cs, o, sy); close(done) }()
	select {
	case <-done:
	case <-time.After(10 * time.Second):
		o.add("CLIENT-TIMEOUT")
	}
	time.Sleep(100 * time.Millisecond) // let the server script finish its last observations
	var out []string
	for {
		select {
		case s := <-o.ch:
			out = append(out, s)
		default:
			// client and server observations interleave differently; compare per side
			var c, s []string
			for _, l := range out {
				if strings.HasPrefix(l, "c.") || strings.HasPrefix(l, "CLIENT") {
					c = append(c, l)
				} else {
					s = append(s, l)
				}
			}
			return append(c, s...)
		}
	}
}

func TestCarrierConformance(t *testing.T) {
	if os.Getenv("VERIF_CONFORMANCE") == "" {
		t.Skip("set VERIF_CONFORMANCE=1")
	}
	bad := 0
	for _, p := range confPrograms() {
		real := runConf(t, p, false)
		mem := runConf(t, p, true)
		if strings.Join(real, "\n") != strings.Join(mem, "\n") {
			bad++
			fmt.Printf("MISMATCH %s\n  grpc-go: %q\n  memconn: %q\n", p.name, real, mem)
		} else {
			fmt.Printf("ok %s: %q\n", p.name, real)
		}
	}
	if bad > 0 {
		t.Fatalf("%d carrier programs differ between memconn and grpc-go", bad)
	}
}
