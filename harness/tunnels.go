package harness

import (
	"context"
	"fmt"
	"reflect"
	"sort"
	"strings"
	"time"

	"github.com/jhump/grpctunnel"
	"github.com/jhump/grpctunnel/tunnelpb"
	"github.com/jhump/grpctunnel/verifrt"
	"google.golang.org/grpc"
	"google.golang.org/grpc/metadata"
)

// TunCfg configures a tunnel between two real endpoints.
type TunCfg struct {
	Reverse    bool
	ClientNoFC bool // WithDisableFlowControl on the network-client side
	ServerNoFC bool // DisableFlowControl on the TunnelServiceHandler
	Legacy     bool // strip the negotiate header both ways
	Cap        int
	OpenMD     metadata.MD
	// OpenInMD: the context that opens the tunnel also carries this (unrelated) INCOMING
	// metadata, as it does when a tunnel is opened from inside a request handler.
	OpenInMD  metadata.MD
	WithBreak bool
	// OpenTimeout puts a deadline on the context that opens the tunnel.
	OpenTimeout time.Duration
	Label       string
	// Over, if set, carries the tunnel over another tunnel channel (nesting) instead of
	// a memconn net. Only forward tunnels are nested.
	Over grpc.ClientConnInterface
	// Handler reuses an existing handler (several reverse tunnels to one handler).
	Handler *grpctunnel.TunnelServiceHandler
	Net     *Net
	HOpts   *grpctunnel.TunnelServiceHandlerOptions
	SrvName string
}

// Tun is an open tunnel.
type Tun struct {
	W       *World
	Cfg     TunCfg
	Net     *Net
	Handler *grpctunnel.TunnelServiceHandler
	// Conn is what callers issue RPCs on: the TunnelChannel (forward) or the handler's
	// pooled reverse channel (reverse).
	Conn grpc.ClientConnInterface
	// Ch is the forward TunnelChannel, or the reverse channel the handler reported open.
	Ch       grpctunnel.TunnelChannel
	RevSrv   *grpctunnel.ReverseTunnelServer
	Serve    *verifrt.Thread
	Cancel   context.CancelFunc // cancels the context that opened the tunnel
	StartErr error
}

func (c TunCfg) String() string {
	dir := "F"
	if c.Reverse {
		dir = "R"
	}
	fc := "fc"
	switch {
	case c.Legacy:
		fc = "legacy"
	case c.ClientNoFC && c.ServerNoFC:
		fc = "nofc-both"
	case c.ClientNoFC:
		fc = "nofc-client"
	case c.ServerNoFC:
		fc = "nofc-server"
	}
	return fmt.Sprintf("%s/%s/cap%d", dir, fc, c.Cap)
}

// FlowControlled reports whether revision one is expected to be negotiated.
func (c TunCfg) FlowControlled() bool { return !c.Legacy && !c.ClientNoFC && !c.ServerNoFC }

// OpenTunnel opens a tunnel through the public API. It runs on the calling thread and
// returns once the tunnel is usable (or failed to start).
func (w *World) OpenTunnel(cfg TunCfg) *Tun {
	t := &Tun{W: w, Cfg: cfg}
	w.Tuns = append(w.Tuns, t)
	label := cfg.Label
	if label == "" {
		label = "T"
	}
	h := cfg.Handler
	if h == nil {
		ho := grpctunnel.TunnelServiceHandlerOptions{DisableFlowControl: cfg.ServerNoFC}
		if cfg.HOpts != nil {
			ho = *cfg.HOpts
			ho.DisableFlowControl = cfg.ServerNoFC
		}
		userOpen, userClose := ho.OnReverseTunnelOpen, ho.OnReverseTunnelClose
		ho.OnReverseTunnelOpen = func(ch grpctunnel.TunnelChannel) {
			w.mu.Lock()
			l, _ := w.Vals["revopen"].([]grpctunnel.TunnelChannel)
			w.Vals["revopen"] = append(l, ch)
			w.mu.Unlock()
			w.Log(Event{Actor: "env", Op: "rev-open-cb", Detail: fmt.Sprintf("t%d", len(l))})
			if userOpen != nil {
				userOpen(ch)
			}
		}
		ho.OnReverseTunnelClose = func(ch grpctunnel.TunnelChannel) {
			w.Log(Event{Actor: "env", Op: "rev-close", Detail: w.ChanName(ch)})
			idx := -1
			w.mu.Lock()
			lo, _ := w.Vals["revopen"].([]grpctunnel.TunnelChannel)
			for i, c := range lo {
				if c == ch {
					idx = i
				}
			}
			w.mu.Unlock()
			w.Log(Event{Actor: "env", Op: "rev-close-cb", Detail: fmt.Sprintf("t%d", idx)})
			w.mu.Lock()
			l, _ := w.Vals["revclosed"].([]grpctunnel.TunnelChannel)
			w.Vals["revclosed"] = append(l, ch)
			w.mu.Unlock()
			if userClose != nil {
				userClose(ch)
			}
		}
		h = grpctunnel.NewTunnelServiceHandler(ho)
		if !cfg.Reverse {
			h.RegisterService(&TestSvcDesc, &TestServer{W: w, Name: orStr(cfg.SrvName, "fwd")})
		}
	}
	t.Handler = h
	var carrier grpc.ClientConnInterface
	if cfg.Over != nil {
		carrier = cfg.Over
	} else {
		n := cfg.Net
		if n == nil {
			n = NewNet(w, label)
			n.Cap = cfg.Cap
			n.StripNegotiate = cfg.Legacy
			n.WithBreak = cfg.WithBreak
			n.Peer = DefaultPeer()
			tunnelpb.RegisterTunnelServiceServer(n, h.Service())
		}
		t.Net = n
		carrier = n
	}
	ctx, cancel := context.WithCancel(context.Background())
	if cfg.OpenTimeout > 0 {
		ctx, cancel = context.WithTimeout(context.Background(), cfg.OpenTimeout)
	}
	t.Cancel = cancel
	if cfg.OpenMD != nil {
		ctx = metadata.NewOutgoingContext(ctx, cfg.OpenMD.Copy())
	}
	if cfg.OpenInMD != nil {
		ctx = metadata.NewIncomingContext(ctx, cfg.OpenInMD.Copy())
	}
	var opts []grpctunnel.TunnelOption
	if cfg.ClientNoFC {
		opts = append(opts, grpctunnel.WithDisableFlowControl())
	}
	stub := tunnelpb.NewTunnelServiceClient(carrier)
	if !cfg.Reverse {
		ch, err := grpctunnel.NewChannel(stub, opts...).Start(ctx)
		t.StartErr = err
		if err == nil {
			t.Ch, t.Conn = ch, ch
			w.NameChan(ch, "fwd:"+label)
		}
		return t
	}
	rs := grpctunnel.NewReverseTunnelServer(stub, opts...)
	rs.RegisterService(&TestSvcDesc, &TestServer{W: w, Name: orStr(cfg.SrvName, "rev:"+label)})
	t.RevSrv = rs
	w.mu.Lock()
	before, _ := w.Vals["revopen"].([]grpctunnel.TunnelChannel)
	nBefore := len(before)
	w.mu.Unlock()
	t.Serve = w.Go("serve:"+label, false, func() {
		started, err := rs.Serve(ctx)
		em, ec := errFields(err)
		w.Log(Event{Actor: "serve:" + label, Op: "serve-returned", Err: em, Code: ec, Detail: fmt.Sprintf("started=%v", started)})
	})
	w.WaitUntil("rev-open", func() bool {
		l, _ := w.Vals["revopen"].([]grpctunnel.TunnelChannel)
		return len(l) > nBefore || t.Serve.Done
	})
	l, _ := w.Vals["revopen"].([]grpctunnel.TunnelChannel)
	if len(l) > nBefore {
		t.Ch = l[len(l)-1]
		w.NameChan(t.Ch, "rev:"+label)
	}
	t.Conn = h.AsChannel()
	return t
}

func orStr(a, b string) string {
	if a != "" {
		return a
	}
	return b
}

// Close tears the tunnel down the clean way and waits until both ends have finished.
func (t *Tun) Close() {
	w := t.W
	w.Drain()
	w.Log(Event{Actor: "env", Op: "clean-close"})
	w.Point("env:close")
	if !t.Cfg.Reverse {
		if t.Ch != nil {
			t.Ch.Close()
		}
	} else {
		t.RevSrv.Stop()
	}
	t.AwaitEnd()
	t.Cancel()
}

// AwaitEnd waits until the carrier stream's handler has returned and Serve (if any) too.
func (t *Tun) AwaitEnd() {
	w := t.W
	w.WaitUntil("tunnel-end", func() bool {
		if t.Serve != nil && !t.Serve.Done {
			return false
		}
		if t.Net != nil && t.Cfg.Net == nil {
			for _, ms := range t.Net.Streams {
				if !ms.Finished {
					return false
				}
			}
		}
		return true
	})
}

// ---- white-box dump (read-only, by reflection over objects recorded by verifrt.Track) --

// Tables describes the per-tunnel tables of the code under test at a quiescent point.
type Tables struct {
	ClientStreams []int // entries in each tunnelChannel's stream table (by creation order)
	ClientFinal   []bool
	ServerStreams []int // entries in each tunnelServer's stream table
	RevAll        int   // members of the handler's "all reverse tunnels" registry (sum over handlers)
	RevByKey      int   // members summed over per-key registries
	Missing       []string
	QueuedBytes   []int // per live defaultReceiver: bytes held in its queue
}

func typeName(v any) string {
	t := reflect.TypeOf(v)
	for t.Kind() == reflect.Pointer {
		t = t.Elem()
	}
	n := t.Name()
	if i := strings.IndexByte(n, '['); i >= 0 {
		n = n[:i]
	}
	return n
}

func field(v reflect.Value, name string, missing *[]string) (reflect.Value, bool) {
	for v.Kind() == reflect.Pointer {
		v = v.Elem()
	}
	f := v.FieldByName(name)
	if !f.IsValid() {
		*missing = append(*missing, v.Type().Name()+"."+name)
		return f, false
	}
	return f, true
}

// Dump reads the tables. It must only be called at quiescent points (root goroutine).
func (w *World) Dump() Tables {
	var tb Tables
	for _, o := range w.S.Tracked() {
		rv := reflect.ValueOf(o)
		switch typeName(o) {
		case "tunnelChannel":
			if f, ok := field(rv, "streams", &tb.Missing); ok {
				tb.ClientStreams = append(tb.ClientStreams, f.Len())
			}
			if f, ok := field(rv, "finished", &tb.Missing); ok {
				tb.ClientFinal = append(tb.ClientFinal, f.Bool())
			}
		case "tunnelServer":
			if f, ok := field(rv, "streams", &tb.Missing); ok {
				tb.ServerStreams = append(tb.ServerStreams, f.Len())
			}
		case "TunnelServiceHandler":
			if f, ok := field(rv, "reverse", &tb.Missing); ok && !f.IsNil() {
				if c, ok := field(f, "chans", &tb.Missing); ok {
					tb.RevAll += c.Len()
				}
			}
			if f, ok := field(rv, "reverseByKey", &tb.Missing); ok {
				it := f.MapRange()
				for it.Next() {
					if c, ok := field(it.Value(), "chans", &tb.Missing); ok {
						tb.RevByKey += c.Len()
					}
				}
			}
		case "defaultReceiver":
			items, ok1 := field(rv, "items", &tb.Missing)
			_, ok2 := field(rv, "currentWindow", &tb.Missing)
			if ok1 && ok2 && !items.IsNil() {
				tb.QueuedBytes = append(tb.QueuedBytes, -1) // filled by ReceiverWindows
			}
		}
	}
	sort.Strings(tb.Missing)
	return tb
}

// ReceiverWindows returns, for every flow-controlled receiver ever created, the window it
// currently advertises (initial window minus bytes held in its queue).
func (w *World) ReceiverWindows() (wins []uint32, missing []string) {
	for _, o := range w.S.Tracked() {
		if typeName(o) != "defaultReceiver" {
			continue
		}
		if f, ok := field(reflect.ValueOf(o), "currentWindow", &missing); ok {
			wins = append(wins, uint32(f.Uint()))
		}
	}
	return
}

// SenderWindows returns the current window of every flow-controlled sender.
func (w *World) SenderWindows() (wins []uint32, missing []string) {
	for _, o := range w.S.Tracked() {
		if typeName(o) != "defaultSender" {
			continue
		}
		f, ok := field(reflect.ValueOf(o), "currentWindow", &missing)
		if !ok {
			continue
		}
		// vatomic.Uint32{ v atomic.Uint32{ _ noCopy; v uint32 } }
		v := f
		for v.Kind() == reflect.Struct {
			inner := v.FieldByName("v")
			if !inner.IsValid() {
				break
			}
			v = inner
		}
		if v.Kind() == reflect.Uint32 {
			wins = append(wins, uint32(v.Uint()))
		} else {
			missing = append(missing, "defaultSender.currentWindow(value)")
		}
	}
	return
}

// StartCallers starts one caller actor per workload (registering the handler scripts).
func (w *World) StartCallers(t *Tun, wls []Workload) []*verifrt.Thread {
	var ts []*verifrt.Thread
	for i := range wls {
		wl := &wls[i]
		hs := wl.Handler
		w.Scripts[hs.ID] = &hs
		spec := wl.Call
		ts = append(ts, w.Go("caller:"+spec.ID, true, func() { w.RunCall(t.Conn, &spec) }))
	}
	return ts
}
