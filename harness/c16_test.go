package harness

import (
	"context"
	"fmt"
	"strings"
	"time"

	"github.com/jhump/grpctunnel"
	"github.com/jhump/grpctunnel/tunnelpb"
	"github.com/jhump/grpctunnel/verifrt"
	"google.golang.org/grpc/codes"
)

// c16: call shapes. (a) raw client -> real server; (b) raw server -> real client;
// (c) application send sequences on non-streaming sides.

type reqSeq struct {
	name   string
	frames []func() *tunnelpb.ClientToServer
	nMsgs  int  // complete messages before the end of the request stream
	half   bool // half-close present
}

func c16ReqSeqs() []reqSeq {
	var out []reqSeq
	msg := func(i int, split bool) []func() *tunnelpb.ClientToServer {
		b := msgBytes(1, 0, i, 12)
		if !split {
			return []func() *tunnelpb.ClientToServer{func() *tunnelpb.ClientToServer { return fReq(1, uint32(len(b)), b) }}
		}
		return []func() *tunnelpb.ClientToServer{
			func() *tunnelpb.ClientToServer { return fReq(1, uint32(len(b)), b[:5]) },
			func() *tunnelpb.ClientToServer { return fMoreReq(1, b[5:]) },
		}
	}
	half := func() *tunnelpb.ClientToServer { return fHalf(1) }
	for n := 0; n <= 3; n++ {
		for splitMask := 0; splitMask < 1<<n; splitMask++ {
			// half-close absent, or after message k (k = 0..n)
			for hc := -1; hc <= n; hc++ {
				if n == 3 && splitMask != 0 && splitMask != 7 {
					continue
				}
				var fr []func() *tunnelpb.ClientToServer
				complete := 0
				for i := 0; i <= n; i++ {
					if hc == i {
						fr = append(fr, half)
					}
					if i < n {
						fr = append(fr, msg(i, splitMask&(1<<i) != 0)...)
						if hc < 0 || i < hc {
							complete++
						}
					}
				}
				out = append(out, reqSeq{name: fmt.Sprintf("n%d/split%03b/half@%d", n, splitMask, hc), frames: fr, nMsgs: complete, half: hc >= 0})
			}
		}
	}
	return out
}

func c16Scenarios(tier string) []*Scenario {
	var scs []*Scenario
	bound := 2
	if tier == "thorough" {
		bound = 3
	}
	if tier == "lite" {
		bound = 1
	}
	// (a) raw client -> real server
	nthBurst := map[string]int{}
	for _, method := range []string{"Unary", "ClientStream", "ServerStream", "Bidi"} {
		for _, rs := range c16ReqSeqs() {
			for _, burst := range []bool{false, true, true} {
				method, rs, burst := method, rs, burst
				clientStreams := method == "ClientStream" || method == "Bidi"
				// third variant: a lenient handler that swallows the error of its request read,
				// answers anyway and returns OK (the outcome must not depend on the handler)
				lenient := false
				if burst {
					if nthBurst[method+rs.name]++; nthBurst[method+rs.name] == 2 {
						if clientStreams || rs.nMsgs < 2 {
							continue
						}
						lenient = true
					}
				}
				scs = append(scs, &Scenario{
					Name: fmt.Sprintf("c16/a/%s/%s/burst=%v%s", method, rs.name, burst, map[bool]string{true: "/lenient"}[lenient]), Prop: "C16",
					Desc: fmt.Sprintf("raw client opens a %s stream on the real server and sends request frame sequence %s (%d complete messages, half-close=%v), frame by frame as the server digests them (burst=false) or all at once before the server reads anything (burst=true); the handler reads until the end (lenient=%v: it ignores a failed read, responds and returns OK)", method, rs.name, rs.nMsgs, rs.half, lenient),
					Opt:  Options{Level: "io", Bound: bound},
					Run: func(w *World) {
						h := grpctunnel.NewTunnelServiceHandler(grpctunnel.TunnelServiceHandlerOptions{})
						h.RegisterService(&TestSvcDesc, &TestServer{W: w, Name: "fwd"})
						n := NewNet(w, "T")
						tunnelpb.RegisterTunnelServiceServer(n, h.Service())
						hs := &HandlerScript{ID: "s1", Tag: 1, Ops: []HOp{{K: "recvall"}, {K: "send", Size: 3}, {K: "return"}}}
						if method == "Unary" {
							hs.Ops = []HOp{{K: "recv"}, {K: "return", Size: 3}}
						}
						if method == "ServerStream" {
							hs.Ops = []HOp{{K: "recv"}, {K: "send", Size: 3}, {K: "return"}}
						}
						hs.KeepGoing = lenient
						w.Scripts["s1"] = hs
						rc, err := w.OpenRawClient(n, true)
						if err != nil {
							return
						}
						w.Vals["rc"] = rc
						// the peer hangs up once the stream got its close frame, or when nothing
						// else can happen any more (a low-priority give-up event)
						w.GoLow("fault:hangup", func() {
							w.WaitUntil("hangup", func() bool { return true })
							w.Log(Event{Actor: "env", Op: "hangup"})
							w.Vals["hangup"] = true
						})
						script := func() {
							_ = rc.Send(fNew(1, "/verif.T/"+method, 1, 65536, "s1"))
							for _, f := range rs.frames {
								if rc.Send(f()) != nil {
									break
								}
							}
							w.WaitUntil("raw:settled", func() bool { return len(rc.CloseOf(1)) > 0 || w.Vals["hangup"] != nil || rc.Done })
							rc.Finish()
						}
						var peer *verifrt.Thread
						if burst {
							// a normal-priority thread whose name sorts first: by default it says
							// everything before the server's receive loop reads the first frame
							peer = w.Go("a-rawclient", true, script)
						} else {
							peer = w.GoPeer("rawclient", script)
						}
						w.Join(peer)
						w.Drain()
					},
					Check: func(w *World, x *Exec) []Violation {
						vs := NoHang(x, "C16")
						if x.Hang {
							return vs
						}
						bad := func(rule, sig, d string) {
							vs = append(vs, Violation{Prop: "C16", Rule: rule, Sig: sig, Detail: d + "\n" + w.Outcome()})
						}
						observed := 0
						for _, e := range w.EventsOf("handler:s1") {
							if e.Op == "recv" && e.OK() {
								observed++
							}
						}
						rc, _ := w.Vals["rc"].(*RawClient)
						if rc == nil {
							return vs
						}
						cl := rc.CloseOf(1)
						if !clientStreams {
							if observed > 1 {
								bad("handler-sees-at-most-one-request", "shape:handler-saw-several-requests:"+method, fmt.Sprintf("handler of non-client-streaming %s observed %d request messages", method, observed))
							}
							// a peer that hung up before the stream was closed ended the whole tunnel: the
							// RPC then ends as any RPC of a dying tunnel does, whatever it had been sent
							hungBeforeClose := false
							if w.Vals["hangup"] != nil {
								hs, cs := -1, 1<<60
								for _, e := range w.EventsOf("env") {
									if e.Op == "hangup" {
										hs = e.Step
									}
								}
								for _, f := range w.Tap.Frames {
									if m, ok := f.Msg.(*tunnelpb.ServerToClient); ok && m.StreamId == 1 && m.GetCloseStream() != nil {
										cs = f.Step
									}
								}
								hungBeforeClose = hs >= 0 && hs < cs
							}
							if rs.nMsgs >= 2 && !hungBeforeClose {
								if observed > 0 {
									bad("handler-sees-at-most-one-request", "shape:handler-invoked-with-request-despite-several:"+method, fmt.Sprintf("%d requests were sent but the handler still observed one", rs.nMsgs))
								}
								if len(cl) == 1 && codes.Code(cl[0].GetStatus().GetCode()) != codes.InvalidArgument {
									bad("several-requests-fail-invalid-argument", "shape:wrong-code:"+codes.Code(cl[0].GetStatus().GetCode()).String(), fmt.Sprintf("%d requests on %s closed with %s", rs.nMsgs, method, codes.Code(cl[0].GetStatus().GetCode())))
								}
								if len(cl) == 0 && w.Vals["hangup"] == nil {
									bad("several-requests-fail-invalid-argument", "shape:no-close", "no close frame")
								}
							}
							if rs.nMsgs == 1 && rs.half && !hungBeforeClose && len(cl) == 1 && codes.Code(cl[0].GetStatus().GetCode()) != codes.OK && trailingPartial(rs) == false {
								bad("single-request-accepted", "shape:single-request-rejected", fmt.Sprintf("one request + half-close on %s closed with %s(%s)", method, codes.Code(cl[0].GetStatus().GetCode()), cl[0].GetStatus().GetMessage()))
							}
						} else if rs.half && observed != rs.nMsgs && len(cl) == 1 && codes.Code(cl[0].GetStatus().GetCode()) == codes.OK {
							bad("streaming-requests-all-delivered", "shape:stream-lost-requests", fmt.Sprintf("handler observed %d of %d requests", observed, rs.nMsgs))
						}
						vs = append(vs, NoLeak(w, x, "C16")...)
						return vs
					},
				})
			}
		}
	}
	// (b) raw server -> real client
	type respSeq struct {
		name   string
		nMsgs  int
		code   codes.Code
		closed bool
	}
	var rseqs []respSeq
	for n := 0; n <= 3; n++ {
		for _, c := range []codes.Code{codes.OK, codes.Aborted} {
			rseqs = append(rseqs, respSeq{fmt.Sprintf("n%d/close=%s", n, c), n, c, true})
		}
	}
	// several responses and then silence: the caller of a non-server-streaming method fails at
	// the second response; its context is never cancelled and the peer never closes the stream
	rseqs = append(rseqs, respSeq{"n2/noclose", 2, codes.OK, false}, respSeq{"n3/noclose", 3, codes.OK, false})
	for _, method := range []string{"Unary", "ClientStream", "ServerStream", "Bidi"} {
		for _, rs := range rseqs {
			for _, split := range []bool{false, true} {
				method, rs, split := method, rs, split
				serverStreams := method == "ServerStream" || method == "Bidi"
				if !rs.closed && serverStreams {
					continue
				}
				scs = append(scs, &Scenario{
					Name: fmt.Sprintf("c16/b/%s/%s/split=%v", method, rs.name, split), Prop: "C16",
					Desc: fmt.Sprintf("real client calls %s on a scripted raw server that answers with %d response messages (split=%v) and close %s", method, rs.nMsgs, split, rs.code),
					Opt:  Options{Level: "io", Bound: bound},
					Run: func(w *World) {
						n := w.NewRawServerNet("T", true, func(c *RawServerConn) error {
							if c.Send(fSettings(-1, 65536, 0, 1)) != nil {
								return nil
							}
							if _, err := c.RecvUntil(func(m *tunnelpb.ClientToServer) bool { return m.GetNewStream() != nil }); err != nil {
								return nil
							}
							_ = c.Send(fHdr(1, nil))
							for i := 0; i < rs.nMsgs; i++ {
								b := msgBytes(1, 1, i, 12)
								if split {
									_ = c.Send(fResp(1, uint32(len(b)), b[:5]))
									_ = c.Send(fMoreResp(1, b[5:]))
								} else {
									_ = c.Send(fResp(1, uint32(len(b)), b))
								}
							}
							if rs.closed {
								_ = c.Send(fClose(1, rs.code, "scripted"))
							}
							c.DrainAll()
							return nil
						})
						ctx, cancel := context.WithCancel(context.Background())
						defer cancel()
						ch, err := grpctunnel.NewChannel(tunnelpb.NewTunnelServiceClient(n)).Start(ctx)
						if err != nil {
							return
						}
						spec := CallSpec{ID: "r1", Tag: 1, Method: method, KeepCtx: !rs.closed}
						if method == "Unary" {
							spec.Ops = []COp{{K: "invoke", Size: 3}}
						} else {
							spec.Ops = []COp{{K: "new"}, {K: "send", Size: 3}, {K: "closesend"}, {K: "recvall"}}
						}
						w.Join(w.Go("caller:r1", true, func() { w.RunCall(ch, &spec) }))
						ch.Close()
						w.WaitUntil("tunnel-end", func() bool { return n.Streams[0].Finished })
						w.Drain()
					},
					Check: func(w *World, x *Exec) []Violation {
						vs := NoHang(x, "C16")
						if x.Hang {
							return vs
						}
						bad := func(rule, sig, d string) {
							vs = append(vs, Violation{Prop: "C16", Rule: rule, Sig: sig, Detail: d + "\n" + w.Outcome()})
						}
						got, success := 0, false
						for _, e := range w.EventsOf("caller:r1") {
							switch {
							case e.Op == "invoke":
								success = e.OK()
								if e.OK() {
									got = 1
								}
							case e.Op == "recv" && e.OK():
								got++
							case e.Op == "recv" && e.Code == "EOF":
								success = got > 0 // EOF as the first result is a non-nil error, not success
							}
						}
						if !serverStreams {
							if success && (rs.nMsgs != 1 || rs.code != codes.OK) {
								bad("no-success-unless-exactly-one-response", "shape:caller-success-with-wrong-count:"+method, fmt.Sprintf("caller of non-server-streaming %s got success although the peer sent %d responses and closed with %s", method, rs.nMsgs, rs.code))
							}
							if got > 1 {
								bad("no-success-unless-exactly-one-response", "shape:caller-got-several-responses:"+method, fmt.Sprintf("caller received %d response messages", got))
							}
							if !success && rs.nMsgs == 1 && rs.code == codes.OK {
								// not part of C16's statement; it is C02's "completes with exactly the status the peer returned"
								vs = append(vs, Violation{Prop: "C02", Rule: "status-delivered", Sig: "meta:ok-rpc-failed-at-caller:" + method,
									Detail: "exactly one response and OK close, but the caller did not succeed\n" + w.Outcome()})
							}
						} else if rs.code == codes.OK && (got != rs.nMsgs) {
							bad("streaming-responses-all-delivered", "shape:stream-lost-responses", fmt.Sprintf("caller received %d of %d responses", got, rs.nMsgs))
						}
						vs = append(vs, NoLeak(w, x, "C16")...)
						return vs
					},
				})
			}
		}
	}
	// (c) application send sequences on a non-streaming side
	for _, cfg := range []TunCfg{{}, {ServerNoFC: true}, {Reverse: true}} {
		for _, method := range []string{"Unary", "ServerStream", "ClientStream"} {
			for nSend := 1; nSend <= 3; nSend++ {
				cfg, method, nSend := cfg, method, nSend
				callerSide := method != "ClientStream"
				if method == "Unary" && !callerSide {
					continue
				}
				scs = append(scs, &Scenario{
					Name: fmt.Sprintf("c16/c/%s/%s/sends=%d", cfg, method, nSend), Prop: "C16",
					Desc: fmt.Sprintf("%s over %s: the application on the non-streaming side (caller=%v) calls SendMsg %d times", method, cfg, callerSide, nSend),
					Opt:  Options{Level: "io", Bound: bound},
					Run: func(w *World) {
						wl := StdWorkload("r1", 1, method, []int{3}, []int{3})
						if callerSide {
							wl.Call.Ops = []COp{{K: "new"}}
							for i := 0; i < nSend; i++ {
								wl.Call.Ops = append(wl.Call.Ops, COp{K: "send", Size: 3})
							}
							wl.Call.Ops = append(wl.Call.Ops, COp{K: "closesend"}, COp{K: "recvall"})
						} else {
							wl.Handler.Ops = []HOp{{K: "recvall"}}
							for i := 0; i < nSend; i++ {
								wl.Handler.Ops = append(wl.Handler.Ops, HOp{K: "send", Size: 3})
							}
							wl.Handler.Ops = append(wl.Handler.Ops, HOp{K: "return"})
							wl.Handler.KeepGoing = true
						}
						RunWorkloads(w, cfg, []Workload{wl})
					},
					Check: func(w *World, x *Exec) []Violation {
						vs := NoHang(x, "C16")
						if x.Hang {
							return vs
						}
						bad := func(rule, sig, d string) {
							vs = append(vs, Violation{Prop: "C16", Rule: rule, Sig: sig, Detail: d + "\n" + w.Outcome()})
						}
						actor := "handler:r1"
						if callerSide {
							actor = "caller:r1"
						}
						for _, e := range w.EventsOf(actor) {
							if e.Op == "send" && e.Idx >= 1 && e.OK() {
								bad("second-send-refused", "shape:second-send-accepted:"+method, fmt.Sprintf("send #%d on the non-streaming side returned nil", e.Idx+1))
							}
						}
						// wire: at most one message envelope in that direction
						env := 0
						for _, f := range w.Tap.Frames {
							switch m := f.Msg.(type) {
							case *tunnelpb.ClientToServer:
								if callerSide && m.GetRequestMessage() != nil {
									env++
								}
							case *tunnelpb.ServerToClient:
								if !callerSide && m.GetResponseMessage() != nil {
									env++
								}
							}
						}
						if env > 1 {
							bad("second-send-not-on-wire", "shape:second-message-on-wire:"+method, fmt.Sprintf("%d message envelopes on the wire from the non-streaming side", env))
						}
						// end to end: the other side never observes more than one
						other := "caller:r1"
						if callerSide {
							other = "handler:r1"
						}
						seen := 0
						for _, e := range w.EventsOf(other) {
							if e.Op == "recv" && e.OK() {
								seen++
							}
						}
						if seen > 1 {
							bad("peer-sees-at-most-one", "shape:peer-saw-several:"+method, fmt.Sprintf("the other side observed %d messages", seen))
						}
						vs = append(vs, NoLeak(w, x, "C16")...)
						return vs
					},
				})
			}
		}
	}
	// (d) a first response send that FAILS half-way (deadline while parked on a small window) must
	// still count: the retry is refused and no second envelope reaches the wire
	for _, method := range []string{"Unary", "ClientStream"} {
		method := method
		scs = append(scs, &Scenario{
			Name: "c16/d/retry-after-failed-send/" + method, Prop: "C16",
			Desc: "raw client opens a " + method + " stream with a 10-byte response window and grpc-timeout 300m, sends its request and half-closes; the handler's 200-byte response parks on the window, the deadline passes (the send fails), the peer then grants credit and the handler sends again",
			Opt:  Options{Level: "io", Bound: bound - 1, Horizon: 4},
			Run: func(w *World) {
				h := grpctunnel.NewTunnelServiceHandler(grpctunnel.TunnelServiceHandlerOptions{})
				h.RegisterService(&TestSvcDesc, &TestServer{W: w, Name: "fwd"})
				n := NewNet(w, "T")
				tunnelpb.RegisterTunnelServiceServer(n, h.Service())
				w.Scripts["s1"] = &HandlerScript{ID: "s1", Tag: 1, KeepGoing: true, Ops: []HOp{{K: "recvall"}, {K: "send", Size: 200}, {K: "sleep", D: 2 * time.Second}, {K: "send", Size: 3}, {K: "return"}}}
				rc, err := w.OpenRawClient(n, true)
				if err != nil {
					return
				}
				w.Vals["rc"] = rc
				w.GoLow("fault:hangup", func() {
					w.WaitUntil("hangup", func() bool { return true })
					w.Vals["hangup"] = true
				})
				peer := w.GoPeer("rawclient", func() {
					f := fNew(1, "/verif.T/"+method, 1, 10, "s1")
					f.GetNewStream().RequestHeaders.Md["grpc-timeout"] = &tunnelpb.Metadata_Values{Val: []string{"300m"}}
					_ = rc.Send(f)
					b := msgBytes(1, 0, 0, 12)
					_ = rc.Send(fReq(1, uint32(len(b)), b))
					_ = rc.Send(fHalf(1))
					w.Sleep(1500 * time.Millisecond)
					_ = rc.Send(fWinC(1, 1000))
					w.WaitUntil("raw:settled", func() bool { return len(rc.CloseOf(1)) > 0 || w.Vals["hangup"] != nil || rc.Done })
					rc.Finish()
				})
				w.Join(peer)
				w.Drain()
			},
			Check: func(w *World, x *Exec) []Violation {
				vs := NoHang(x, "C16")
				if x.Hang {
					return vs
				}
				firstFailed := false
				for _, e := range w.EventsOf("handler:s1") {
					if e.Op == "send" && e.Idx == 0 && !e.OK() {
						firstFailed = true
					}
					if e.Op == "send" && e.Idx >= 1 && e.OK() && firstFailed {
						vs = append(vs, Violation{Prop: "C16", Rule: "second-send-refused", Sig: "shape:retry-after-failed-send-accepted:" + method, Detail: "the handler's first response send failed half-way, its second SendMsg returned nil\n" + w.Outcome()})
					}
				}
				env := 0
				for _, f := range w.Tap.Frames {
					if m, ok := f.Msg.(*tunnelpb.ServerToClient); ok && m.GetResponseMessage() != nil {
						env++
					}
				}
				if env > 1 {
					vs = append(vs, Violation{Prop: "C16", Rule: "second-send-not-on-wire", Sig: "shape:second-message-on-wire:" + method, Detail: fmt.Sprintf("%d response envelopes on the wire of a method with a single response\n%s", env, w.Outcome())})
				}
				return vs
			},
		})
	}
	return scs
}

func trailingPartial(rs reqSeq) bool { return strings.Contains(rs.name, "partial") }

func init() {
	register(&PropDef{ID: "C16", Level: "exploration",
		Rule:    "(a) for each of the 4 methods, every request frame sequence with 0..3 messages, each whole or split into envelope + continuation, half-close absent or at every position, sent by a raw client to the real server; (b) every response sequence with 0..3 messages (whole/split) and OK/error close sent by a raw server to the real client for each method; (c) 1..3 application SendMsg calls on the non-streaming side of each shape, forward/reverse/revision zero; all schedules with <= 2 (quick) / 3 (thorough) deviations at frame/application granularity; oracle: handler of a non-client-streaming method observes <= 1 request and >= 2 requests end InvalidArgument; caller of a non-server-streaming method succeeds iff exactly one response and OK; the second send is refused and never reaches the wire",
		Globals: []func(*Scenario, *World, *Exec) []Violation{ProtoMonitor},
		// the small families (b), (c), (d) first: a time-budget cut then costs part of the big family (a) only
		Scenarios: func(tier string) []*Scenario {
			var first, rest []*Scenario
			for _, sc := range c16Scenarios(tier) {
				if strings.HasPrefix(sc.Name, "c16/a/") {
					rest = append(rest, sc)
				} else {
					first = append(first, sc)
				}
			}
			return append(first, rest...)
		}})
}
