package harness

import (
	"fmt"
	"strings"
	"time"

	"google.golang.org/grpc/metadata"
)

// ---- MSG oracle ---------------------------------------------------------------------

// msgOracle checks, per RPC and direction, that what the receiving application obtained
// is a prefix of what the sending application submitted (byte-identical, by content
// pattern) and is complete when the receiver was told the RPC ended normally.
func msgOracle(w *World, prop string, ids []string) []Violation {
	var vs []Violation
	for _, id := range ids {
		c, h := w.EventsOf("caller:"+id), w.EventsOf("handler:"+id)
		vs = append(vs, msgDir(prop, id, "request", c, h, false)...)
		vs = append(vs, msgDir(prop, id, "response", h, c, true)...)
	}
	return vs
}

func identOf(e Event) string { return strings.TrimPrefix(e.Detail, "m=") }

func msgDir(prop, id, dir string, snd, rcv []Event, toCaller bool) []Violation {
	var submitted, acked, got []string
	for _, e := range snd {
		switch e.Op {
		case "send-begin":
			submitted = append(submitted, identOf(e))
		case "send":
			if e.OK() {
				acked = append(acked, identOf(e))
			}
		}
	}
	normalEnd := false
	for _, e := range rcv {
		switch e.Op {
		case "recv":
			if e.OK() {
				got = append(got, identOf(e))
			} else if e.Code == "EOF" {
				normalEnd = true // handler saw end-of-stream / caller saw OK
			}
		case "invoke":
			if e.OK() {
				got = append(got, identOf(e))
				normalEnd = true
			}
		}
	}
	// a unary handler's response is "submitted" by returning it
	if toCaller {
		for _, e := range snd {
			if e.Op == "returned" && !e.OK() {
				// handler failed: nothing more can be required
			}
		}
	}
	var vs []Violation
	for i, g := range got {
		if i >= len(submitted) {
			vs = append(vs, Violation{Prop: prop, Rule: "received-is-prefix-of-sent", Sig: "msg:fabricated:" + dir,
				Detail: fmt.Sprintf("rpc %s %s: receiver obtained message #%d %q but only %d were submitted %v", id, dir, i, g, len(submitted), submitted)})
			return vs
		}
		if g != submitted[i] {
			kind := "mismatch"
			if strings.HasPrefix(g, "corrupt") {
				kind = "corrupt"
			}
			vs = append(vs, Violation{Prop: prop, Rule: "received-is-prefix-of-sent", Sig: "msg:" + kind + ":" + dir,
				Detail: fmt.Sprintf("rpc %s %s: message #%d is %q, submitted was %q (all received %v, submitted %v)", id, dir, i, g, submitted[i], got, submitted)})
			return vs
		}
	}
	if normalEnd && len(got) < len(acked) {
		vs = append(vs, Violation{Prop: prop, Rule: "complete-on-normal-end", Sig: "msg:incomplete:" + dir,
			Detail: fmt.Sprintf("rpc %s %s: receiver was told the RPC ended normally after %d messages but %d were sent successfully", id, dir, len(got), len(acked))})
	}
	return vs
}

// ---- workloads ------------------------------------------------------------------------

// Workload is a caller script together with the matching handler script.
type Workload struct {
	Call    CallSpec
	Handler HandlerScript
}

// StdWorkload builds the standard scripts of one RPC shape: the caller sends req sizes,
// half-closes and reads everything; the handler reads everything (or one message) and
// answers resp sizes.
func StdWorkload(id string, tag byte, shape string, req, resp []int) Workload {
	wl := Workload{Call: CallSpec{ID: id, Tag: tag, Method: shape}, Handler: HandlerScript{ID: id, Tag: tag}}
	c, h := &wl.Call, &wl.Handler
	switch shape {
	case "Unary":
		c.Ops = []COp{{K: "invoke", Size: req[0]}}
		h.Ops = []HOp{{K: "recv"}, {K: "return", Size: resp[0]}}
		return wl
	}
	c.Ops = append(c.Ops, COp{K: "new"})
	for _, s := range req {
		c.Ops = append(c.Ops, COp{K: "send", Size: s})
	}
	c.Ops = append(c.Ops, COp{K: "closesend"}, COp{K: "recvall"}, COp{K: "trailer"})
	switch shape {
	case "ClientStream", "Bidi":
		h.Ops = append(h.Ops, HOp{K: "recvall"})
	default:
		h.Ops = append(h.Ops, HOp{K: "recv"})
	}
	for _, s := range resp {
		h.Ops = append(h.Ops, HOp{K: "send", Size: s})
	}
	h.Ops = append(h.Ops, HOp{K: "return"})
	return wl
}

// RunWorkloads opens the tunnel, runs the workloads concurrently (one caller actor each),
// closes the tunnel.
func RunWorkloads(w *World, cfg TunCfg, wls []Workload) *Tun {
	t := w.OpenTunnel(cfg)
	if t.StartErr != nil {
		w.Log(Event{Actor: "env", Op: "start", Err: t.StartErr.Error(), Code: "start-failed"})
		return t
	}
	var ts = w.StartCallers(t, wls)
	w.Join(ts...)
	t.Close()
	return t
}

func shapesReqResp(shape string, sizes []int) (req, resp []int) {
	switch shape {
	case "Unary":
		return sizes[:1], sizes[len(sizes)-1:]
	case "ClientStream":
		return sizes, sizes[:1]
	case "ServerStream":
		return sizes[:1], sizes
	}
	return sizes, sizes
}

func c01Scenarios(tier string) []*Scenario {
	var scs []*Scenario
	sq := []int{0, 3, 16384, 16385, 65536, 65537}
	cfgs := []TunCfg{{}, {ServerNoFC: true}, {Reverse: true}, {Reverse: true, ServerNoFC: true}}
	bound := 1
	if tier == "thorough" {
		sq = []int{0, 3, 16383, 16384, 16385, 32768, 65535, 65536, 65537, 131073}
		bound = 2
	}
	// M1: every dir x fc x shape x size list (length <= 2)
	var lists [][]int
	for _, a := range sq {
		lists = append(lists, []int{a})
	}
	for _, a := range sq {
		for _, b := range sq {
			lists = append(lists, []int{a, b})
		}
	}
	for _, cfg := range cfgs {
		for _, shape := range []string{"Unary", "ClientStream", "ServerStream", "Bidi"} {
			for _, l := range lists {
				if shape == "Unary" && len(l) > 1 {
					continue
				}
				cfg, shape, l := cfg, shape, l
				req, resp := shapesReqResp(shape, l)
				wl := StdWorkload("r1", 1, shape, req, resp)
				scs = append(scs, &Scenario{
					Name: fmt.Sprintf("c01/m1/%s/%s/%v", cfg, shape, l), Prop: "C01",
					Desc: fmt.Sprintf("one %s RPC over a %s tunnel; request sizes %v, response sizes %v; all schedules with <= %d deviations at carrier/application granularity", shape, cfg, req, resp, bound),
					Opt:  Options{Level: "io", Bound: bound},
					Run:  func(w *World) { RunWorkloads(w, cfg, []Workload{wl}) },
					Check: func(w *World, x *Exec) []Violation {
						vs := NoHang(x, "C01")
						vs = append(vs, msgOracle(w, "C01", []string{"r1"})...)
						vs = append(vs, completeOK(w, "C01", wl)...)
						return vs
					},
				})
			}
		}
	}
	scs = append(scs, c01M2(tier)...)
	scs = append(scs, c01M3(tier)...)
	scs = append(scs, c01M4(tier)...)
	scs = append(scs, c01M5(tier)...)
	scs = append(scs, c01M6(tier)...)
	return scs
}

// M6: the handler speaks first (responses may reach the client before the caller has even
// returned from starting the RPC) with EVERY synchronisation operation of the library as a
// scheduling point, under both default-scheduler families.
func c01M6(tier string) []*Scenario {
	var scs []*Scenario
	bound := 1
	if tier == "thorough" {
		bound = 2
	}
	for _, cfg := range []TunCfg{{}, {Reverse: true}, {ServerNoFC: true}} {
		for _, revOrder := range []bool{false, true} {
			cfg, revOrder := cfg, revOrder
			wl := StdWorkload("r1", 1, "Bidi", []int{3}, nil)
			wl.Call.Ops = []COp{{K: "new"}, {K: "recv"}, {K: "send", Size: 3}, {K: "closesend"}, {K: "recvall"}, {K: "trailer"}}
			wl.Handler.Ops = []HOp{{K: "send", Size: 3}, {K: "send", Size: 16385}, {K: "recvall"}, {K: "send", Size: 3}, {K: "return"}}
			scs = append(scs, &Scenario{
				Name: fmt.Sprintf("c01/m6/%s/handler-first/rev=%v", cfg, revOrder), Prop: "C01", Heavy: true,
				Desc: fmt.Sprintf("Bidi RPC over a %s tunnel whose handler sends two responses before reading anything; every lock, atomic, condition and channel operation of the library is a scheduling point; default scheduler family rev=%v; <= %d deviations", cfg, revOrder, bound),
				Opt:  Options{Level: "sync", Bound: bound, RevOrder: revOrder},
				Run:  func(w *World) { RunWorkloads(w, cfg, []Workload{wl}) },
				Check: func(w *World, x *Exec) []Violation {
					vs := NoHang(x, "C01")
					vs = append(vs, msgOracle(w, "C01", []string{"r1"})...)
					return append(vs, completeOK(w, "C01", wl)...)
				},
			})
		}
	}
	return scs
}

// M5: termination while a receiver is in the middle of a read, at the granularity of every
// synchronisation operation of the read / accept / close / cancel paths: the cause strikes
// at every point and one further deviation places any thread anywhere.
func c01M5(tier string) []*Scenario {
	var scs []*Scenario
	focus := []string{"readMsgLocked", "readMsg", "RecvMsg", "dequeue", "accept", "close", "cancel", "handleClosure", "halfClose", "finishStream",
		"acceptClientFrame", "acceptServerFrame", "serveStream", "cancelStream", "serve", "recvLoop"}
	type c struct {
		cfg   TunCfg
		fault string
	}
	cases := []c{{TunCfg{}, "chclose"}}
	if tier == "thorough" {
		cases = append(cases, c{TunCfg{}, "cancel:r1"}, c{TunCfg{ServerNoFC: true}, "chclose"}, c{TunCfg{Reverse: true}, "stop"}, c{TunCfg{Reverse: true}, "cancel:r1"})
	}
	for _, cs := range cases {
		for _, revOrder := range []bool{false, true} {
			cs, revOrder := cs, revOrder
			wl := StdWorkload("r1", 1, "Bidi", []int{3, 3}, []int{3})
			scs = append(scs, &Scenario{
				Name: fmt.Sprintf("c01/m5/%s/Bidi/%s/rev=%v", cs.cfg, cs.fault, revOrder), Prop: "C01", Heavy: true,
				Desc: fmt.Sprintf("Bidi RPC (two requests, one response) over a %s tunnel; cause %q strikes at every point and one further deviation places any thread anywhere, with every synchronisation operation of the read / accept / close / cancel paths as a scheduling point", cs.cfg, cs.fault),
				Opt:  Options{Level: "focus", Focus: focus, Bound: 2, DevOK: oneFaultAnyOrder, RevOrder: revOrder},
				Run: func(w *World) {
					t := w.OpenTunnel(cs.cfg)
					if t.StartErr != nil {
						return
					}
					w.StartFault(t, cs.fault)
					w.Join(w.StartCallers(t, []Workload{wl})...)
					t.Close()
				},
				Check: func(w *World, x *Exec) []Violation {
					vs := NoHang(x, "C01")
					return append(vs, msgOracle(w, "C01", []string{"r1"})...)
				},
			})
		}
	}
	return scs
}

// M2: two and three concurrent RPCs; this is where cross-delivery and chunk interleaving
// would show.
func c01M2(tier string) []*Scenario {
	var scs []*Scenario
	bound := 1
	if tier == "thorough" {
		bound = 2
	}
	type combo struct {
		name string
		wls  []Workload
	}
	combos := []combo{
		{"B+B", []Workload{StdWorkload("r1", 1, "Bidi", []int{16385, 3}, []int{65537}), StdWorkload("r2", 2, "Bidi", []int{65537}, []int{16385, 3})}},
		{"B+CS", []Workload{StdWorkload("r1", 1, "Bidi", []int{16385}, []int{16385}), StdWorkload("r2", 2, "ClientStream", []int{65537, 3}, []int{3})}},
		{"U+SS+B", []Workload{StdWorkload("r1", 1, "Unary", []int{16385}, []int{16385}), StdWorkload("r2", 2, "ServerStream", []int{3}, []int{65537, 3}), StdWorkload("r3", 3, "Bidi", []int{3, 16385}, []int{16385})}},
	}
	for _, cfg := range []TunCfg{{}, {ServerNoFC: true}, {Reverse: true}, {Cap: 1}} {
		for _, cb := range combos {
			cfg, cb := cfg, cb
			var ids []string
			for _, wl := range cb.wls {
				ids = append(ids, wl.Call.ID)
			}
			scs = append(scs, &Scenario{
				Name: fmt.Sprintf("c01/m2/%s/%s", cfg, cb.name), Prop: "C01",
				Desc: fmt.Sprintf("concurrent RPCs %s over a %s tunnel, all schedules with <= %d deviations at carrier/application granularity", cb.name, cfg, bound),
				Opt:  Options{Level: "io", Bound: bound},
				Run:  func(w *World) { RunWorkloads(w, cfg, cb.wls) },
				Check: func(w *World, x *Exec) []Violation {
					vs := NoHang(x, "C01")
					vs = append(vs, msgOracle(w, "C01", ids)...)
					for _, wl := range cb.wls {
						vs = append(vs, completeOK(w, "C01", wl)...)
					}
					return vs
				},
			})
		}
	}
	return scs
}

// M3: termination. The RPC is cancelled, its deadline expires or the tunnel is torn down
// at every quiescent point of the run; whatever each side received must still be a prefix
// of what the other side submitted.
func c01M3(tier string) []*Scenario {
	var scs []*Scenario
	bound := 1
	dev := onlyFaults
	if tier == "thorough" {
		bound = 2
		dev = faultThenAny
	}
	mk := func(shape string) Workload {
		req, resp := shapesReqResp(shape, []int{16385, 16385})
		wl := StdWorkload("r1", 1, shape, req, resp)
		if shape == "Bidi" {
			// ping-pong so that both sides block in Recv at some point
			wl.Call.Ops = []COp{{K: "new"}, {K: "send", Size: 16385}, {K: "recv"}, {K: "send", Size: 16385}, {K: "closesend"}, {K: "recvall"}}
			wl.Handler.Ops = []HOp{{K: "recv"}, {K: "send", Size: 16385}, {K: "recv"}, {K: "recv"}, {K: "send", Size: 16385}, {K: "return"}}
		}
		return wl
	}
	for _, cfg := range []TunCfg{{}, {ServerNoFC: true}, {Reverse: true}, {Reverse: true, ServerNoFC: true}} {
		faults := []string{"cancel:r1", "openctx", "break", "deadline", "hdeadline"}
		if cfg.Reverse {
			faults = append(faults, "stop", "chclose")
		} else {
			faults = append(faults, "chclose")
		}
		for _, shape := range []string{"Bidi", "ClientStream"} {
			for _, fault := range faults {
				cfg, shape, fault := cfg, shape, fault
				wl := mk(shape)
				opt := Options{Level: "io", Bound: bound, DevOK: dev}
				switch fault {
				case "deadline":
					wl.Call.Timeout = 1500 * time.Millisecond
					opt.Horizon = 2
				case "hdeadline":
					wl.Call.MD = metadata.Pairs("grpc-timeout", "1500m")
					opt.Horizon = 2
				case "break":
					cfg.WithBreak = true
				}
				scs = append(scs, &Scenario{
					Name: fmt.Sprintf("c01/m3/%s/%s/%s", cfg, shape, fault), Prop: "C01",
					Desc: fmt.Sprintf("%s RPC (two 16385-byte messages each way) over a %s tunnel; cause %q strikes at every quiescent point of the run (bound %d)", shape, cfg, fault, bound),
					Opt:  opt,
					Run: func(w *World) {
						t := w.OpenTunnel(cfg)
						if t.StartErr != nil {
							return
						}
						if fault != "deadline" && fault != "hdeadline" && fault != "break" {
							w.StartFault(t, fault)
						}
						w.Join(w.StartCallers(t, []Workload{wl})...)
						t.Close()
					},
					Check: func(w *World, x *Exec) []Violation {
						vs := NoHang(x, "C01")
						vs = append(vs, msgOracle(w, "C01", []string{"r1"})...)
						return vs
					},
				})
			}
		}
	}
	return scs
}

// M4: fine-grained schedules (every lock, atomic, condition and channel operation inside
// the framing / flow-control functions) of one bidi stream.
func c01M4(tier string) []*Scenario {
	var scs []*Scenario
	bound := 2
	if tier == "thorough" {
		bound = 3
	}
	focus := []string{"send", "accept", "dequeue", "close", "cancel", "readMsgLocked", "readMsg", "acceptClientFrame", "acceptServerFrame",
		"finishStream", "halfClose", "handleClosure", "updateWindow", "RecvMsg", "SendMsg"}
	for _, cfg := range []TunCfg{{}, {ServerNoFC: true}} {
		cfg := cfg
		wl := StdWorkload("r1", 1, "Bidi", []int{16385, 3}, []int{16385, 3})
		scs = append(scs, &Scenario{
			Name: fmt.Sprintf("c01/m4/%s/Bidi", cfg), Prop: "C01",
			Desc: fmt.Sprintf("one Bidi RPC [16385,3] each way over a %s tunnel; every synchronisation operation inside the framing and flow-control functions is a scheduling point; all schedules with <= %d deviations", cfg, bound),
			Opt:  Options{Level: "focus", Focus: focus, Bound: bound},
			Run:  func(w *World) { RunWorkloads(w, cfg, []Workload{wl}) },
			Check: func(w *World, x *Exec) []Violation {
				vs := NoHang(x, "C01")
				vs = append(vs, msgOracle(w, "C01", []string{"r1"})...)
				vs = append(vs, completeOK(w, "C01", wl)...)
				return vs
			},
		})
	}
	return scs
}

// completeOK requires that an undisturbed standard workload ends OK at the caller with
// every message delivered (so that the MSG oracle is not vacuous).
func completeOK(w *World, prop string, wl Workload) []Violation {
	id := wl.Call.ID
	ok := false
	n := 0
	for _, e := range w.EventsOf("caller:" + id) {
		if e.Op == "invoke" && e.OK() {
			ok = true
		}
		if e.Op == "recv" {
			if e.OK() {
				n++
			} else if e.Code == "EOF" {
				ok = true
			}
		}
	}
	if !ok {
		return []Violation{{Prop: prop, Rule: "undisturbed-rpc-completes", Sig: "rpc-did-not-end-ok:" + wl.Call.Method,
			Detail: fmt.Sprintf("rpc %s: %s", id, w.Outcome())}}
	}
	return nil
}

func init() {
	register(&PropDef{ID: "C01", Level: "model_checking",
		Rule:      "deviation-bounded DFS over all schedules of scripted RPC workloads on the real tunnel (see DESIGN.md C01); oracle: received sequence is a byte-identical prefix of the submitted sequence, complete on normal end",
		Globals:   []func(*Scenario, *World, *Exec) []Violation{ProtoMonitor, WinMonitor},
		Scenarios: c01Scenarios})
}
