package harness

import (
	"fmt"
	"strings"
)

// ---- MSG oracle ---------------------------------------------------------------------

// msgOracle checks, per RPC and direction, that what the receiving application obtained
// is a prefix of what the sending application submitted (byte-identical, by content
// pattern) and is complete when the receiver was told the RPC ended normally.
func msgOracle(w *World, prop string, ids []string) []Violation {
	var vs []Violation
	for _, id := range ids {
		c, h := w.EventsOf("caller:"+id), w.EventsOf("handler:"+id)
		vs = append(vs, msgDir(prop, id, "request", c, h, false)...)
		vs = append(vs, msgDir(prop, id, "response", h, c, true)...)
	}
	return vs
}

func identOf(e Event) string { return strings.TrimPrefix(e.Detail, "m=") }

func msgDir(prop, id, dir string, snd, rcv []Event, toCaller bool) []Violation {
	var submitted, acked, got []string
	for _, e := range snd {
		switch e.Op {
		case "send-begin":
			submitted = append(submitted, identOf(e))
		case "send":
			if e.Err == "" {
				acked = append(acked, identOf(e))
			}
		}
	}
	normalEnd := false
	for _, e := range rcv {
		switch e.Op {
		case "recv":
			if e.Err == "" {
				got = append(got, identOf(e))
			} else if e.Code == "EOF" {
				normalEnd = true // handler saw end-of-stream / caller saw OK
			}
		case "invoke":
			if e.Err == "" {
				got = append(got, identOf(e))
				normalEnd = true
			}
		}
	}
	// a unary handler's response is "submitted" by returning it
	if toCaller {
		for _, e := range snd {
			if e.Op == "returned" && e.Err != "" {
				// handler failed: nothing more can be required
			}
		}
	}
	var vs []Violation
	for i, g := range got {
		if i >= len(submitted) {
			vs = append(vs, Violation{Prop: prop, Rule: "received-is-prefix-of-sent", Sig: "msg:fabricated:" + dir,
				Detail: fmt.Sprintf("rpc %s %s: receiver obtained message #%d %q but only %d were submitted %v", id, dir, i, g, len(submitted), submitted)})
			return vs
		}
		if g != submitted[i] {
			kind := "mismatch"
			if strings.HasPrefix(g, "corrupt") {
				kind = "corrupt"
			}
			vs = append(vs, Violation{Prop: prop, Rule: "received-is-prefix-of-sent", Sig: "msg:" + kind + ":" + dir,
				Detail: fmt.Sprintf("rpc %s %s: message #%d is %q, submitted was %q (all received %v, submitted %v)", id, dir, i, g, submitted[i], got, submitted)})
			return vs
		}
	}
	if normalEnd && len(got) < len(acked) {
		vs = append(vs, Violation{Prop: prop, Rule: "complete-on-normal-end", Sig: "msg:incomplete:" + dir,
			Detail: fmt.Sprintf("rpc %s %s: receiver was told the RPC ended normally after %d messages but %d were sent successfully", id, dir, len(got), len(acked))})
	}
	return vs
}

// ---- workloads ------------------------------------------------------------------------

// Workload is a caller script together with the matching handler script.
type Workload struct {
	Call    CallSpec
	Handler HandlerScript
}

// StdWorkload builds the standard scripts of one RPC shape: the caller sends req sizes,
// half-closes and reads everything; the handler reads everything (or one message) and
// answers resp sizes.
func StdWorkload(id string, tag byte, shape string, req, resp []int) Workload {
	wl := Workload{Call: CallSpec{ID: id, Tag: tag, Method: shape}, Handler: HandlerScript{ID: id, Tag: tag}}
	c, h := &wl.Call, &wl.Handler
	switch shape {
	case "Unary":
		c.Ops = []COp{{K: "invoke", Size: req[0]}}
		h.Ops = []HOp{{K: "recv"}, {K: "return", Size: resp[0]}}
		return wl
	}
	c.Ops = append(c.Ops, COp{K: "new"})
	for _, s := range req {
		c.Ops = append(c.Ops, COp{K: "send", Size: s})
	}
	c.Ops = append(c.Ops, COp{K: "closesend"}, COp{K: "recvall"}, COp{K: "trailer"})
	switch shape {
	case "ClientStream", "Bidi":
		h.Ops = append(h.Ops, HOp{K: "recvall"})
	default:
		h.Ops = append(h.Ops, HOp{K: "recv"})
	}
	for _, s := range resp {
		h.Ops = append(h.Ops, HOp{K: "send", Size: s})
	}
	h.Ops = append(h.Ops, HOp{K: "return"})
	return wl
}

// RunWorkloads opens the tunnel, runs the workloads concurrently (one caller actor each),
// closes the tunnel.
func RunWorkloads(w *World, cfg TunCfg, wls []Workload) *Tun {
	t := w.OpenTunnel(cfg)
	if t.StartErr != nil {
		w.Log(Event{Actor: "env", Op: "start", Err: t.StartErr.Error()})
		return t
	}
	var ts = w.StartCallers(t, wls)
	w.Join(ts...)
	t.Close()
	return t
}

func shapesReqResp(shape string, sizes []int) (req, resp []int) {
	switch shape {
	case "Unary":
		return sizes[:1], sizes[len(sizes)-1:]
	case "ClientStream":
		return sizes, sizes[:1]
	case "ServerStream":
		return sizes[:1], sizes
	}
	return sizes, sizes
}

func c01Scenarios(tier string) []*Scenario {
	var scs []*Scenario
	sq := []int{0, 3, 16384, 16385, 65536, 65537}
	cfgs := []TunCfg{{}, {ServerNoFC: true}, {Reverse: true}, {Reverse: true, ServerNoFC: true}}
	bound := 1
	if tier == "thorough" {
		sq = []int{0, 3, 16383, 16384, 16385, 32768, 65535, 65536, 65537, 131073}
		bound = 2
	}
	// M1: every dir x fc x shape x size list (length <= 2)
	var lists [][]int
	for _, a := range sq {
		lists = append(lists, []int{a})
	}
	for _, a := range sq {
		for _, b := range sq {
			lists = append(lists, []int{a, b})
		}
	}
	for _, cfg := range cfgs {
		for _, shape := range []string{"Unary", "ClientStream", "ServerStream", "Bidi"} {
			for _, l := range lists {
				if shape == "Unary" && len(l) > 1 {
					continue
				}
				cfg, shape, l := cfg, shape, l
				req, resp := shapesReqResp(shape, l)
				wl := StdWorkload("r1", 1, shape, req, resp)
				scs = append(scs, &Scenario{
					Name: fmt.Sprintf("c01/m1/%s/%s/%v", cfg, shape, l), Prop: "C01",
					Desc: fmt.Sprintf("one %s RPC over a %s tunnel; request sizes %v, response sizes %v; all schedules with <= %d deviations at carrier/application granularity", shape, cfg, req, resp, bound),
					Opt:  Options{Level: "io", Bound: bound},
					Run:  func(w *World) { RunWorkloads(w, cfg, []Workload{wl}) },
					Check: func(w *World, x *Exec) []Violation {
						vs := NoHang(x, "C01")
						vs = append(vs, msgOracle(w, "C01", []string{"r1"})...)
						vs = append(vs, completeOK(w, "C01", wl)...)
						return vs
					},
				})
			}
		}
	}
	return scs
}

// completeOK requires that an undisturbed standard workload ends OK at the caller with
// every message delivered (so that the MSG oracle is not vacuous).
func completeOK(w *World, prop string, wl Workload) []Violation {
	id := wl.Call.ID
	ok := false
	n := 0
	for _, e := range w.EventsOf("caller:" + id) {
		if e.Op == "invoke" && e.Err == "" {
			ok = true
		}
		if e.Op == "recv" {
			if e.Err == "" {
				n++
			} else if e.Code == "EOF" {
				ok = true
			}
		}
	}
	if !ok {
		return []Violation{{Prop: prop, Rule: "undisturbed-rpc-completes", Sig: "rpc-did-not-end-ok:" + wl.Call.Method,
			Detail: fmt.Sprintf("rpc %s: %s", id, w.Outcome())}}
	}
	return nil
}

func init() {
	register(&PropDef{ID: "C01", Level: "model_checking",
		Rule:      "deviation-bounded DFS over all schedules of scripted RPC workloads on the real tunnel (see DESIGN.md C01); oracle: received sequence is a byte-identical prefix of the submitted sequence, complete on normal end",
		Globals:   []func(*Scenario, *World, *Exec) []Violation{ProtoMonitor, WinMonitor},
		Scenarios: c01Scenarios})
}
