package harness

import (
	"fmt"
	"time"

	"google.golang.org/grpc/codes"
	"google.golang.org/grpc/metadata"
)

// c07: cancel / deadline of one RPC at every point of its run; a second RPC afterwards
// proves that the tunnel survived and that late frames had no effect.
func c07Scenarios(tier string) []*Scenario {
	var scs []*Scenario
	thorough := tier == "thorough"
	hmd, tmd := metadata.Pairs("h", "1"), metadata.Pairs("t", "1")
	type variant struct {
		name string
		mod  func(wl *Workload, shape string)
	}
	variants := []variant{
		{"replying", func(wl *Workload, shape string) {}},
		{"blocked-in-recv", func(wl *Workload, shape string) {
			// the caller never half-closes and the handler keeps reading
			var ops []COp
			for _, o := range wl.Call.Ops {
				if o.K == "closesend" {
					continue
				}
				ops = append(ops, o)
			}
			wl.Call.Ops = ops
			wl.Handler.Ops = []HOp{{K: "sethdr", MD: hmd}, {K: "recvall"}, {K: "return", Code: codes.Aborted, Msg: "recv failed"}}
		}},
		{"blocked-in-send", func(wl *Workload, shape string) {
			// the handler sends more than a window while the caller does not read
			wl.Call.Ops = []COp{{K: "new"}, {K: "send", Size: 3}, {K: "waitfault", D: 3 * time.Second}, {K: "recvall"}, {K: "trailer"}}
			wl.Handler.Ops = []HOp{{K: "sethdr", MD: hmd}, {K: "settrl", MD: tmd}, {K: "recv"}, {K: "send", Size: 200000}, {K: "return"}}
		}},
	}
	variants = append(variants, variant{"abandoned", func(wl *Workload, shape string) {
		// the handler sends several small responses and then waits for its context; the caller
		// reads nothing, cancels and abandons the stream (it never drains it)
		wl.Call.Ops = []COp{{K: "new"}, {K: "send", Size: 3}, {K: "waitfault", D: 3 * time.Second}}
		wl.Handler.Ops = []HOp{{K: "sethdr", MD: hmd}, {K: "recv"}, {K: "send", Size: 3}, {K: "send", Size: 3}, {K: "send", Size: 3}, {K: "send", Size: 3}, {K: "waitctx"}, {K: "return", Code: codes.Aborted, Msg: "ctx done"}}
		wl.Handler.KeepGoing = true
	}})
	for _, cfg := range []TunCfg{{}, {ServerNoFC: true}, {Reverse: true}, {Reverse: true, ServerNoFC: true}} {
		for _, shape := range []string{"Unary", "ClientStream", "ServerStream", "Bidi"} {
			for _, v := range variants {
				if (v.name == "blocked-in-send" || v.name == "abandoned") && (shape == "Unary" || shape == "ClientStream") {
					continue
				}
				if v.name == "blocked-in-recv" && (shape == "Unary" || shape == "ServerStream") {
					continue
				}
				for _, cause := range []string{"cancel", "deadline"} {
					cfg, shape, v, cause := cfg, shape, v, cause
					req, resp := shapesReqResp(shape, []int{16385, 3})
					wl := StdWorkload("r1", 1, shape, req, resp)
					wl.Handler.Ops = append([]HOp{{K: "sethdr", MD: hmd}, {K: "settrl", MD: tmd}}, wl.Handler.Ops...)
					v.mod(&wl, shape)
					wl.Handler.KeepGoing = false
					opt := Options{Level: "io", Bound: 1, DevOK: onlyFaults}
					if !cfg.Reverse && !cfg.ServerNoFC && tier != "lite" {
						opt = Options{Level: "io", Bound: 2, DevOK: oneFaultAnyOrder}
					}
					if thorough {
						opt = Options{Level: "io", Bound: 2, DevOK: oneFaultAnyOrder}
					}
					wantCode := "Canceled"
					if cause == "deadline" {
						wl.Call.Timeout = 1500 * time.Millisecond
						opt.Horizon = 2
						wantCode = "DeadlineExceeded"
					}
					nResp := len(resp)
					canEndOK := v.name != "blocked-in-recv"
					if v.name == "blocked-in-send" {
						nResp = 1
					}
					scs = append(scs, &Scenario{
						Name: fmt.Sprintf("c07/%s/%s/%s/%s", cfg, shape, v.name, cause), Prop: "C07",
						Desc: fmt.Sprintf("%s RPC (handler %s) over a %s tunnel; its context is ended by %s at every quiescent point of the run; afterwards a second RPC runs on the same tunnel", shape, v.name, cfg, cause),
						Opt:  opt,
						Run: func(w *World) {
							t := w.OpenTunnel(cfg)
							if t.StartErr != nil {
								return
							}
							if cause == "cancel" {
								w.StartFault(t, "cancel:r1")
							}
							w.Join(w.StartCallers(t, []Workload{wl})...)
							r2 := StdWorkload("r2", 2, "Bidi", []int{3}, []int{3})
							w.Join(w.StartCallers(t, []Workload{r2})...)
							t.Close()
						},
						Check: func(w *World, x *Exec) []Violation {
							vs := NoHang(x, "C07")
							if x.Hang {
								return vs
							}
							bad := func(rule, sig, d string) {
								vs = append(vs, Violation{Prop: "C07", Rule: rule, Sig: sig, Detail: d + "\n" + w.Outcome()})
							}
							// terminal result of r1
							var term *Event
							got := 0
							ce := w.EventsOf("caller:r1")
							for i, e := range ce {
								if e.Op == "recv" && e.OK() {
									got++
								}
								if term == nil && ((e.Op == "recv" && !e.OK()) || e.Op == "invoke" || (e.Op == "new" && !e.OK())) {
									term = &ce[i]
								}
							}
							if term == nil && v.name == "abandoned" {
								// the caller never asks: only the handler side and the tunnel are judged
								inv, ret := false, false
								for _, e := range w.EventsOf("handler:r1") {
									inv = inv || e.Op == "invoked"
									ret = ret || e.Op == "returned"
								}
								if inv && !ret {
									bad("handler-unblocked", "cancel:handler-never-returned", "handler r1 never returned")
								}
								r2 := StdWorkload("r2", 2, "Bidi", []int{3}, []int{3})
								vs = append(vs, rename(completeOK(w, "C07", r2), "cancel:second-rpc-failed")...)
								return append(vs, NoLeak(w, x, "C07")...)
							}
							if term == nil {
								bad("one-terminal-result", "cancel:no-terminal-result", "caller never obtained a terminal result")
								return vs
							}
							normal := term.OK() || term.Code == "EOF"
							// on a method with a single response, a successfully received response IS the
							// success of the call (CloseAndRecv returns it with a nil error): whatever
							// follows must then be the normal end, not the cancellation
							if got > 0 && (shape == "Unary" || shape == "ClientStream") && !normal {
								bad("exactly-one-legal-outcome", "cancel:response-then-"+term.Code, fmt.Sprintf("the single response was handed to the caller with a nil error, but the call then ended with %s(%s): a mixture of the two outcomes", term.Code, term.Err))
							}
							switch {
							case normal:
								// the legal "completed" outcome: everything must be there
								if !canEndOK {
									bad("exactly-one-legal-outcome", "cancel:ok-although-handler-failed", fmt.Sprintf("caller ended %s although the handler can only end with an error", term.Code))
								}
								if term.Op == "recv" && got != nResp {
									bad("exactly-one-legal-outcome", "cancel:ok-with-missing-data", fmt.Sprintf("caller saw EOF after %d of %d responses", got, nResp))
								}
								for _, e := range ce {
									if e.Op == "trailer" && e.Step >= term.Step && e.Detail != mdString(tmd) {
										bad("exactly-one-legal-outcome", "cancel:ok-with-missing-trailers", fmt.Sprintf("caller ended OK but Trailer() = %s", e.Detail))
									}
								}
							case term.Code == wantCode:
							case v.name != "replying" && term.Code == "Aborted":
								// the handler's own failure raced ahead of the cancellation: also legal
							default:
								bad("exactly-one-legal-outcome", "cancel:unexpected-code:"+term.Code, fmt.Sprintf("caller ended with %s(%s); legal outcomes are the normal completion or %s", term.Code, term.Err, wantCode))
							}
							for _, e := range ce {
								if e.Step > term.Step && e.Op == "recv" && (e.Code != term.Code) {
									bad("one-terminal-result", "cancel:terminal-result-changed", fmt.Sprintf("first %s then %s", term.Code, e.Code))
								}
							}
							// handler side: it returned (its context was cancelled / ops failed) - Drain in Close waited for it
							inv, ret := false, false
							for _, e := range w.EventsOf("handler:r1") {
								inv = inv || e.Op == "invoked"
								ret = ret || e.Op == "returned"
							}
							if inv && !ret {
								bad("handler-unblocked", "cancel:handler-never-returned", "handler r1 never returned")
							}
							// the tunnel survived and the second RPC was not affected
							r2 := StdWorkload("r2", 2, "Bidi", []int{3}, []int{3})
							vs = append(vs, rename(completeOK(w, "C07", r2), "cancel:second-rpc-failed")...)
							vs = append(vs, msgOracle(w, "C07", []string{"r1", "r2"})...)
							vs = append(vs, NoLeak(w, x, "C07")...)
							return vs
						},
					})
				}
			}
		}
	}
	// a context that is already done when the RPC starts: the cancel falls at the very start of
	// the frame sequence (lock granularity in stream creation and cancellation, both families)
	for _, cfg := range []TunCfg{{}, {Reverse: true}} {
		for _, revOrder := range []bool{false, true} {
			cfg, revOrder := cfg, revOrder
			b := 1
			if thorough {
				b = 2
			}
			scs = append(scs, &Scenario{
				Name: fmt.Sprintf("c07/%s/pre-cancelled/rev=%v", cfg, revOrder), Prop: "C07", Heavy: true,
				Desc: fmt.Sprintf("a unary and a bidi RPC are started on a %s tunnel with contexts that are already cancelled while another bidi RPC is open; the tunnel and that RPC must be unaffected; lock granularity in stream creation / cancellation, scheduler family rev=%v, <= %d deviations", cfg, revOrder, b),
				Opt: Options{Level: "focus", Bound: b, RevOrder: revOrder, Focus: []string{"newStream", "allocateStream", "cancelStream", "finishStream", "removeStream",
					"Send", "SendMsg", "getStream", "createStream"}},
				Run: func(w *World) {
					t := w.OpenTunnel(cfg)
					if t.StartErr != nil {
						return
					}
					by := StdWorkload("by", 1, "Bidi", nil, nil)
					by.Call.Ops = []COp{{K: "new"}, {K: "send", Size: 3}, {K: "recv"}, {K: "waitfault", D: 0}, {K: "send", Size: 3}, {K: "closesend"}, {K: "recvall"}}
					by.Handler.Ops = []HOp{{K: "recv"}, {K: "send", Size: 3}, {K: "recvall"}, {K: "send", Size: 3}, {K: "return"}}
					ths := w.StartCallers(t, []Workload{by})
					w.WaitUntil("by-open", func() bool {
						for _, e := range w.Events {
							if e.Actor == "caller:by" && e.Op == "recv" {
								return true
							}
						}
						return false
					})
					for i, shape := range []string{"Unary", "Bidi"} {
						p := StdWorkload(fmt.Sprintf("p%d", i), byte(10+i), shape, []int{3}, []int{3})
						p.Call.PreCancel = true
						w.Scripts[p.Handler.ID] = &p.Handler
						w.RunCall(t.Conn, &p.Call)
					}
					w.Log(Event{Actor: "fault", Op: "precancelled-done"})
					w.Join(ths...)
					r2 := StdWorkload("r2", 2, "Unary", []int{3}, []int{3})
					w.Join(w.StartCallers(t, []Workload{r2})...)
					t.Close()
				},
				Check: func(w *World, x *Exec) []Violation {
					vs := NoHang(x, "C07")
					if x.Hang {
						return vs
					}
					// (a pre-cancelled RPC may end Canceled or - the cancellation racing a fast
					// peer - complete normally; both are legal outcomes of the race)
					by := StdWorkload("by", 1, "Bidi", []int{3, 3}, []int{3, 3})
					vs = append(vs, rename(completeOK(w, "C07", by), "cancel:pre-cancelled:other-rpc-failed")...)
					vs = append(vs, rename(completeOK(w, "C07", StdWorkload("r2", 2, "Unary", []int{3}, []int{3})), "cancel:pre-cancelled:tunnel-dead")...)
					vs = append(vs, msgOracle(w, "C07", []string{"by", "r2"})...)
					return append(vs, NoLeak(w, x, "C07")...)
				},
			})
		}
	}
	return scs
}

func rename(vs []Violation, sig string) []Violation {
	for i := range vs {
		vs[i].Sig = sig
	}
	return vs
}

func init() {
	register(&PropDef{ID: "C07", Level: "fault_enumeration",
		Rule:      "caller-side cancel / deadline expiry of one RPC at every quiescent point of its run (quick: the cause alone, D=1, and for forward flow-controlled tunnels the cause plus one further deviation in either order; thorough: cause + one further deviation everywhere, which orders the resulting cancel frame against the peer's close/data/window frames) x 4 shapes x handler variants {replying, blocked in Recv, blocked in a window-limited Send} x {forward, reverse} x {flow control, revision zero}; oracle: caller ends with the complete normal outcome (all data + trailers) or Canceled/DeadlineExceeded, never a mixture; handler returns; a second RPC on the same tunnel completes; nothing left behind",
		Globals:   []func(*Scenario, *World, *Exec) []Violation{ProtoMonitor},
		Scenarios: c07Scenarios})
}
