package harness

// memconn: an in-memory carrier for gRPC *streams* whose every operation is a
// scheduling point owned by the explorer. It implements grpc.ClientConnInterface and
// grpc.ServiceRegistrar, so tunnels are opened through the library's public API with the
// generated tunnelpb stubs. Semantics follow grpc-go (see carrier_conformance_test.go).

import (
	"bytes"
	"context"
	"fmt"
	"io"
	"net"
	"strings"
	"sync"
	"sync/atomic"
	"time"

	"github.com/jhump/grpctunnel/verifrt"
	"google.golang.org/grpc"
	"google.golang.org/grpc/codes"
	"google.golang.org/grpc/metadata"
	"google.golang.org/grpc/peer"
	"google.golang.org/grpc/status"
	"google.golang.org/protobuf/proto"
)

// Net is one in-memory "network": a set of registered services and the carrier streams
// opened against them.
type Net struct {
	W *World

	mu       sync.Mutex
	changed  chan struct{}
	services map[string]netSvc
	Streams  []*MStream

	// Cap is the per-direction capacity in frames of every carrier stream (0 = unbounded).
	Cap int
	// StripNegotiate removes the grpctunnel-negotiate key from request metadata and
	// response headers (both real endpoints then believe the other is a legacy peer).
	StripNegotiate bool
	// Peer, if set, is attached to the server-side context of every stream.
	Peer *peer.Peer
	// ServerCtx, if set, decorates the server-side context (stands in for interceptors).
	ServerCtx func(context.Context) context.Context
	// WithBreak creates a low-priority fault thread per stream that can break it.
	WithBreak bool
	// Label distinguishes several nets in thread names and taps.
	Label string
	// sent remembers, per queued frame (keyed by the first byte of its serialisation), the
	// message value that was handed to Send: grpc allows a transport to use it lazily, so a
	// sender must not modify it afterwards. It is serialised again at delivery and compared.
	sent map[*byte]proto.Message
}

var detMarshal = proto.MarshalOptions{Deterministic: true}

func (n *Net) remember(b []byte, m proto.Message) {
	if len(b) == 0 {
		return
	}
	if n.sent == nil {
		n.sent = map[*byte]proto.Message{}
	}
	n.sent[&b[0]] = m
}

// checkUnmodified returns the bytes to deliver: what the message serialises to NOW (a lazy
// transport would put exactly that on the wire); a difference to what it was at Send time is
// recorded.
func (n *Net) checkUnmodified(ms *MStream, b []byte, dir string) []byte {
	if len(b) == 0 || n.sent == nil {
		return b
	}
	m := n.sent[&b[0]]
	if m == nil {
		return b
	}
	delete(n.sent, &b[0])
	b2, err := detMarshal.Marshal(m)
	if err != nil || bytes.Equal(b, b2) {
		return b
	}
	n.W.mu.Lock()
	n.W.FrameMutations = append(n.W.FrameMutations, fmt.Sprintf("%s %s: a %T frame was modified after it had been handed to Send (%d bytes then, %d bytes at delivery)", ms.Name, dir, m, len(b), len(b2)))
	n.W.mu.Unlock()
	return b2
}

type netSvc struct {
	desc *grpc.ServiceDesc
	impl any
}

func NewNet(w *World, label string) *Net {
	n := &Net{W: w, changed: make(chan struct{}), services: map[string]netSvc{}, Label: label}
	w.Nets = append(w.Nets, n)
	return n
}

func (n *Net) RegisterService(d *grpc.ServiceDesc, impl any) {
	n.services[d.ServiceName] = netSvc{d, impl}
}

func (n *Net) Invoke(ctx context.Context, method string, args, reply any, opts ...grpc.CallOption) error {
	return status.Error(codes.Unimplemented, "memconn: unary carrier RPCs are not supported")
}

// bump wakes free-running waiters; callers hold n.mu.
func (n *Net) bump() {
	close(n.changed)
	n.changed = make(chan struct{})
}

// await is the single blocking primitive of the carrier: a scheduling point whose guard
// is pred; on return n.mu is held and pred() is true.
func (n *Net) await(site string, obj any, pred func() bool) {
	verifrt.Yield("carrier", site, obj, func() bool {
		n.mu.Lock()
		defer n.mu.Unlock()
		return pred()
	})
	for {
		n.mu.Lock()
		if pred() {
			return
		}
		ch := n.changed
		n.mu.Unlock()
		// free-running mode only (under the scheduler the guard held): context expiry does
		// not bump the net, so poll
		select {
		case <-ch:
		case <-time.After(5 * time.Millisecond):
		}
	}
}

// MStream is one carrier stream (both ends).
type MStream struct {
	net    *Net
	ID     int
	Name   string
	Method string

	cctx    context.Context
	ccancel context.CancelFunc
	sctx    context.Context
	scancel context.CancelFunc

	c2s, s2c  [][]byte
	c2sClosed bool // client half-closed

	hdr      metadata.MD
	hdrSent  bool
	pendHdr  metadata.MD
	trailer  metadata.MD
	st       *status.Status
	Finished bool // handler returned

	cErr, sErr error // abrupt failure seen by client / server side
	Broken     bool

	negReq, negResp bool // the endpoints saw the negotiate key in request md / response headers
	clientDone      bool // the client observed the end of the stream (its context was cancelled by that)

	// statistics for oracles
	C2SSent, S2CSent, C2SRecv, S2CRecv int

	// calls in progress per side and direction: grpc allows one goroutine sending and one
	// receiving on a stream, not two of either (the library's thread-safe wrappers are there
	// to guarantee it); a thread parked inside a call at its scheduling point is "in" the call
	active [4]int32
}

const (
	actCSend = iota
	actCRecv
	actSSend
	actSRecv
)

var actNames = [4]string{"client-side send calls (Send/SendMsg/CloseSend)", "client-side receive calls", "server-side send calls", "server-side receive calls"}

// enter marks a call in progress and reports a second concurrent one of the same kind.
func (ms *MStream) enter(kind int) func() {
	if atomic.AddInt32(&ms.active[kind], 1) > 1 {
		w := ms.net.W
		w.mu.Lock()
		w.ContractViolations = append(w.ContractViolations, fmt.Sprintf("%s: two concurrent %s on one carrier stream", ms.Name, actNames[kind]))
		w.mu.Unlock()
	}
	return func() { atomic.AddInt32(&ms.active[kind], -1) }
}

func (n *Net) NewStream(ctx context.Context, desc *grpc.StreamDesc, method string, opts ...grpc.CallOption) (grpc.ClientStream, error) {
	var sd *grpc.StreamDesc
	var impl any
	for name, s := range n.services {
		for i := range s.desc.Streams {
			if "/"+name+"/"+s.desc.Streams[i].StreamName == method {
				sd, impl = &s.desc.Streams[i], s.impl
			}
		}
	}
	verifrt.Yield("carrier", "open:"+n.Label, n, nil)
	if err := ctx.Err(); err != nil {
		return nil, status.FromContextError(err).Err()
	}
	if sd == nil {
		return nil, status.Errorf(codes.Unimplemented, "unknown method %s", method)
	}
	n.mu.Lock()
	id := len(n.Streams)
	cctx, ccancel := context.WithCancel(ctx)
	md, _ := metadata.FromOutgoingContext(ctx)
	md = md.Copy()
	if n.StripNegotiate {
		delete(md, "grpctunnel-negotiate")
	}
	base := context.Background()
	if n.Peer != nil {
		base = peer.NewContext(base, n.Peer)
	}
	if n.ServerCtx != nil {
		base = n.ServerCtx(base)
	}
	if md == nil {
		md = metadata.MD{}
	}
	// like grpc (grpc-timeout header), the deadline of the client's context becomes a deadline
	// of the server-side stream context
	var sctx context.Context
	var scancel context.CancelFunc
	if dl, ok := ctx.Deadline(); ok {
		sctx, scancel = context.WithDeadline(metadata.NewIncomingContext(base, md), dl)
	} else {
		sctx, scancel = context.WithCancel(metadata.NewIncomingContext(base, md))
	}
	_, negReq := md["grpctunnel-negotiate"]
	ms := &MStream{negReq: negReq, net: n, ID: id, Name: fmt.Sprintf("%s%d", n.Label, id), Method: method,
		cctx: cctx, ccancel: ccancel, sctx: sctx, scancel: scancel}
	n.Streams = append(n.Streams, ms)
	n.bump()
	n.mu.Unlock()
	n.W.Tap.open(ms)

	// server handler thread
	verifrt.GoOpt("net:"+ms.Name+":handler", verifrt.ThreadOpt{Abs: true}, func() {
		err := sd.Handler(impl, &mServerStream{ms})
		verifrt.Yield("carrier", "s.return:"+ms.Name, ms, nil)
		ms.finish(err)
	})
	// propagation of a client-side cancellation to the server side is its own event
	verifrt.GoOpt("net:"+ms.Name+":cancelprop", verifrt.ThreadOpt{Abs: true, Daemon: true}, func() {
		n.await("cancelprop:"+ms.Name, ms, func() bool { return cctx.Err() != nil })
		if !ms.Finished && ms.sErr == nil {
			ms.sErr = status.Error(codes.Canceled, "context canceled")
			ms.c2s = nil
			ms.scancel()
			n.W.Tap.note(ms, "cancel-propagated")
		}
		n.bump()
		n.mu.Unlock()
	})
	if n.WithBreak {
		verifrt.GoOpt("fault:break:"+ms.Name, verifrt.ThreadOpt{Abs: true, Daemon: true, Low: 2}, func() {
			n.await("break:"+ms.Name, ms, func() bool { return true })
			n.mu.Unlock()
			n.W.Log(Event{Actor: "fault", Op: "break"})
			ms.Break()
		})
	}
	return &mClientStream{ms}, nil
}

// Break fails the stream abruptly on both sides (transport failure).
func (ms *MStream) Break() {
	n := ms.net
	n.mu.Lock()
	if !ms.Finished && !ms.Broken {
		ms.Broken = true
		e := status.Error(codes.Unavailable, "transport is closing")
		if ms.cErr == nil {
			ms.cErr = e
		}
		if ms.sErr == nil {
			ms.sErr = e
		}
		ms.c2s, ms.s2c = nil, nil
		ms.scancel()
		n.W.Tap.note(ms, "break")
	}
	n.bump()
	n.mu.Unlock()
}

func (ms *MStream) finish(err error) {
	n := ms.net
	n.mu.Lock()
	if ms.Finished && ms.st != nil {
		n.W.Tap.note(ms, "handler-returned-late")
	}
	if !ms.Finished {
		ms.Finished = true
		st, _ := status.FromError(err)
		if err != nil && st == nil {
			st = status.New(codes.Unknown, err.Error())
		}
		ms.st = st
		if !ms.hdrSent && ms.sErr == nil {
			// trailers-only response: no header frame
		}
		ms.scancel()
		n.W.Tap.note(ms, "handler-returned:"+st.Code().String())
	}
	n.bump()
	n.mu.Unlock()
}

// State summarises the stream for state keys and oracles (quiescent points only).
func (ms *MStream) State() string {
	return fmt.Sprintf("%s[c2s=%d%v s2c=%d hdr=%v fin=%v cErr=%v sErr=%v cctx=%v]", ms.Name, len(ms.c2s), ms.c2sClosed,
		len(ms.s2c), ms.hdrSent, ms.Finished, ms.cErr != nil, ms.sErr != nil, ms.cctx.Err() != nil)
}

func (n *Net) room(q [][]byte) bool { return n.Cap == 0 || len(q) < n.Cap }

type mClientStream struct{ *MStream }

func (c *mClientStream) Context() context.Context { return c.cctx }

func (c *mClientStream) Header() (metadata.MD, error) {
	n := c.net
	n.await("c.header:"+c.Name, c.MStream, func() bool {
		return c.hdrSent || c.Finished || c.cErr != nil || c.cctx.Err() != nil
	})
	defer n.mu.Unlock()
	switch {
	case c.hdrSent:
		return c.hdr.Copy(), nil
	case c.cErr != nil:
		c.clientDoneLocked()
		return nil, c.cErr
	case c.Finished:
		// grpc-go (checked by carrier_conformance_test.go): a response without a headers
		// frame ("trailers only") yields empty metadata and a nil error from Header(), whatever
		// the status; the status is reported by RecvMsg
		return metadata.MD{}, nil
	default:
		// grpc-go v1.75 (conformance-checked): when the context ends before any headers
		// arrived, Header() returns empty metadata and a nil error; RecvMsg reports the status
		return metadata.MD{}, nil
	}
}

func (c *MStream) clientDoneLocked() { c.clientDone = true; c.ccancel() }

// ctxEndedLocked: the caller's context ended (cancel / deadline) before the client observed
// the end of the stream. grpc-go then reports the context error, even if the server has
// finished meanwhile (conformance-checked).
func (c *MStream) ctxEndedLocked() bool { return !c.clientDone && c.cctx.Err() != nil }

func (c *mClientStream) Trailer() metadata.MD {
	n := c.net
	n.mu.Lock()
	defer n.mu.Unlock()
	return c.trailer.Copy()
}

func (c *mClientStream) CloseSend() error {
	defer c.enter(actCSend)()
	n := c.net
	n.await("c.closesend:"+c.Name, c.MStream, func() bool { return true })
	defer n.mu.Unlock()
	if !c.c2sClosed {
		c.c2sClosed = true
		n.W.Tap.note(c.MStream, "c.closesend")
	}
	n.bump()
	return nil
}

func (c *mClientStream) SendMsg(m any) error {
	defer c.enter(actCSend)()
	n := c.net
	b, err := detMarshal.Marshal(m.(proto.Message))
	n.await("c.send:"+c.Name, c.MStream, func() bool {
		return err != nil || n.room(c.c2s) || c.Finished || c.cErr != nil || c.cctx.Err() != nil || c.sErr != nil
	})
	defer n.mu.Unlock()
	defer n.bump()
	if err != nil {
		// grpc-go: a message that cannot be encoded fails the RPC (Internal) and the
		// stream is torn down.
		e := status.Errorf(codes.Internal, "grpc: error while marshaling: %v", err)
		c.abortLocked(e)
		return e
	}
	if c.cErr != nil || c.Finished || c.cctx.Err() != nil {
		return io.EOF
	}
	if c.c2sClosed {
		return status.Error(codes.Internal, "SendMsg called after CloseSend")
	}
	if c.sErr != nil {
		// server side already gone (cancel propagated): data is dropped silently
		n.W.Tap.frame(c.MStream, true, m.(proto.Message), b, false)
		return nil
	}
	c.c2s = append(c.c2s, b)
	n.remember(b, m.(proto.Message))
	c.C2SSent++
	n.W.Tap.frame(c.MStream, true, m.(proto.Message), b, true)
	return nil
}

// abortLocked ends the stream from the client side with an error (marshal failure).
func (c *MStream) abortLocked(e error) {
	if c.cErr == nil {
		c.cErr = e
	}
	if !c.Finished && c.sErr == nil {
		c.sErr = status.Error(codes.Canceled, "context canceled")
		c.c2s = nil
		c.scancel()
	}
	c.ccancel()
	c.net.W.Tap.note(c, "client-abort")
}

func (c *mClientStream) RecvMsg(m any) error {
	defer c.enter(actCRecv)()
	n := c.net
	n.await("c.recv:"+c.Name, c.MStream, func() bool {
		return len(c.s2c) > 0 || c.Finished || c.cErr != nil || c.cctx.Err() != nil
	})
	defer n.mu.Unlock()
	defer n.bump()
	if c.cErr != nil {
		c.clientDoneLocked()
		return c.cErr
	}
	if c.ctxEndedLocked() {
		return status.FromContextError(c.cctx.Err()).Err()
	}
	if len(c.s2c) > 0 {
		b := n.checkUnmodified(c.MStream, c.s2c[0], "S>C")
		c.s2c = c.s2c[1:]
		c.S2CRecv++
		n.W.Tap.delivered(c.MStream, false)
		return proto.Unmarshal(b, m.(proto.Message))
	}
	if c.Finished {
		c.clientDoneLocked()
		if err := c.st.Err(); err != nil {
			return err
		}
		return io.EOF
	}
	err := status.FromContextError(c.cctx.Err()).Err()
	return err
}

type mServerStream struct{ *MStream }

func (s *mServerStream) Context() context.Context { return s.sctx }

func (s *mServerStream) SetHeader(md metadata.MD) error {
	n := s.net
	n.mu.Lock()
	defer n.mu.Unlock()
	if s.hdrSent {
		return status.Error(codes.Internal, "transport: the stream is done or WriteHeader was already called")
	}
	s.pendHdr = metadata.Join(s.pendHdr, md)
	return nil
}

func (s *mServerStream) sendHeaderLocked() {
	if s.hdrSent {
		return
	}
	s.hdrSent = true
	h := s.pendHdr.Copy()
	if s.net.StripNegotiate {
		delete(h, "grpctunnel-negotiate")
	}
	if h == nil {
		h = metadata.MD{}
	}
	s.hdr = h
	_, s.negResp = h["grpctunnel-negotiate"]
	s.net.W.Tap.note(s.MStream, "s.header")
}

func (s *mServerStream) SendHeader(md metadata.MD) error {
	n := s.net
	n.await("s.header:"+s.Name, s.MStream, func() bool { return true })
	defer n.mu.Unlock()
	defer n.bump()
	if s.hdrSent {
		return status.Error(codes.Internal, "transport: the stream is done or WriteHeader was already called")
	}
	if s.sErr != nil || s.sctx.Err() != nil {
		return status.Error(codes.Unavailable, "transport is closing")
	}
	s.pendHdr = metadata.Join(s.pendHdr, md)
	s.sendHeaderLocked()
	return nil
}

func (s *mServerStream) SetTrailer(md metadata.MD) {
	n := s.net
	n.mu.Lock()
	defer n.mu.Unlock()
	s.trailer = metadata.Join(s.trailer, md)
}

func (s *mServerStream) SendMsg(m any) error {
	defer s.enter(actSSend)()
	n := s.net
	b, err := detMarshal.Marshal(m.(proto.Message))
	n.await("s.send:"+s.Name, s.MStream, func() bool {
		return err != nil || n.room(s.s2c) || s.sErr != nil || s.sctx.Err() != nil || s.cErr != nil || s.cctx.Err() != nil
	})
	defer n.mu.Unlock()
	defer n.bump()
	if err != nil {
		// grpc-go: a message that cannot be encoded ends the RPC with that status
		e := status.Errorf(codes.Internal, "grpc: error while marshaling: %v", err)
		if !s.Finished && s.sErr == nil {
			s.sErr = e
			s.Finished = true
			s.st, _ = status.FromError(e)
			s.scancel()
			n.W.Tap.note(s.MStream, "server-abort")
		}
		return e
	}
	if s.sErr != nil {
		return s.sErr
	}
	if err := s.sctx.Err(); err != nil {
		return status.FromContextError(err).Err()
	}
	s.sendHeaderLocked()
	if s.cErr != nil || s.cctx.Err() != nil {
		// the client is gone but the server side has not been told yet
		n.W.Tap.frame(s.MStream, false, m.(proto.Message), b, false)
		return nil
	}
	s.s2c = append(s.s2c, b)
	n.remember(b, m.(proto.Message))
	s.S2CSent++
	n.W.Tap.frame(s.MStream, false, m.(proto.Message), b, true)
	return nil
}

func (s *mServerStream) RecvMsg(m any) error {
	defer s.enter(actSRecv)()
	n := s.net
	n.await("s.recv:"+s.Name, s.MStream, func() bool {
		return len(s.c2s) > 0 || s.c2sClosed || s.sErr != nil || s.sctx.Err() != nil
	})
	defer n.mu.Unlock()
	defer n.bump()
	if s.sErr != nil {
		return s.sErr
	}
	if err := s.sctx.Err(); err != nil {
		return status.FromContextError(err).Err()
	}
	if len(s.c2s) > 0 {
		b := n.checkUnmodified(s.MStream, s.c2s[0], "C>S")
		s.c2s = s.c2s[1:]
		s.C2SRecv++
		n.W.Tap.delivered(s.MStream, true)
		return proto.Unmarshal(b, m.(proto.Message))
	}
	return io.EOF
}

// DefaultPeer is the peer attached to server-side carrier contexts by default.
func DefaultPeer() *peer.Peer {
	return &peer.Peer{Addr: &net.TCPAddr{IP: net.IPv4(10, 0, 0, 7), Port: 4242}}
}

func mdString(md metadata.MD) string {
	if len(md) == 0 {
		return "{}"
	}
	var ks []string
	for k := range md {
		ks = append(ks, k)
	}
	sortStrings(ks)
	var sb strings.Builder
	sb.WriteString("{")
	for i, k := range ks {
		if i > 0 {
			sb.WriteString(" ")
		}
		fmt.Fprintf(&sb, "%s=%q", k, md[k])
	}
	sb.WriteString("}")
	return sb.String()
}
