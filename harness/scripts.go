package harness

import (
	"context"
	"errors"
	"fmt"
	"io"
	"strings"
	"sync"
	"time"

	"github.com/jhump/grpctunnel"
	"google.golang.org/grpc"
	"google.golang.org/grpc/codes"
	"google.golang.org/grpc/credentials"
	"google.golang.org/grpc/metadata"
	"google.golang.org/grpc/peer"
	"google.golang.org/grpc/status"
	"google.golang.org/protobuf/proto"
	"google.golang.org/protobuf/types/known/anypb"
	"google.golang.org/protobuf/types/known/wrapperspb"
)

// ---- message payloads -------------------------------------------------------------

// payloadLen returns the BytesValue payload length whose serialized size is exactly sz
// (sizes 1 and 2 do not exist for this message type; they are rounded up to 3).
func payloadLen(sz int) int {
	if sz <= 0 {
		return 0
	}
	if sz < 3 {
		sz = 3
	}
	for _, v := range []int{1, 2, 3, 4, 5} {
		n := sz - 1 - v
		if n >= 0 && varintLen(n) == v {
			return n
		}
	}
	// sizes that fall in a varint-length gap (e.g. 130): use the next smaller payload
	return sz - 1 - varintLen(sz)
}

func varintLen(n int) int {
	l := 1
	for n >= 128 {
		n >>= 7
		l++
	}
	return l
}

// MakeMsg builds message idx of RPC tag in direction dir (0 request, 1 response) whose
// serialized size is sz. Every byte is a function of (tag, dir, idx, position).
func MakeMsg(tag byte, dir, idx, sz int) *wrapperspb.BytesValue {
	key := [4]int{int(tag), dir, idx, sz}
	msgCacheMu.Lock()
	defer msgCacheMu.Unlock()
	if m, ok := msgCache[key]; ok {
		// a fresh wrapper around the shared (never mutated) payload
		return &wrapperspb.BytesValue{Value: m}
	}
	m := makeMsg(tag, dir, idx, sz)
	msgCache[key] = m.Value
	return m
}

var (
	msgCacheMu sync.Mutex
	msgCache   = map[[4]int][]byte{}
)

func makeMsg(tag byte, dir, idx, sz int) *wrapperspb.BytesValue {
	n := payloadLen(sz)
	b := make([]byte, n)
	for j := range b {
		b[j] = fill(tag, dir, idx, j)
	}
	if n > 0 {
		b[0] = tag
	}
	if n > 1 {
		b[1] = byte(dir<<6 | idx&0x3f)
	}
	return &wrapperspb.BytesValue{Value: b}
}

func fill(tag byte, dir, idx, j int) byte { return byte(j*31 + int(tag)*7 + idx*13 + dir*101 + j>>8) }

// MsgIdent decodes a received message into a canonical identity string; any corruption
// (wrong byte anywhere, merged or truncated content) yields a "corrupt" identity.
func MsgIdent(m *wrapperspb.BytesValue) string {
	b := m.GetValue()
	if len(b) == 0 {
		return "empty"
	}
	tag := b[0]
	if len(b) == 1 {
		return fmt.Sprintf("t%d.n1", tag)
	}
	dir, idx := int(b[1]>>6), int(b[1]&0x3f)
	for j := 2; j < len(b); j++ {
		if b[j] != fill(tag, dir, idx, j) {
			return fmt.Sprintf("corrupt(t%d.d%d.i%d.n%d@%d)", tag, dir, idx, len(b), j)
		}
	}
	return fmt.Sprintf("t%d.d%d.i%d.n%d", tag, dir, idx, len(b))
}

// Ident is the identity MakeMsg(tag, dir, idx, sz) must decode to.
func Ident(tag byte, dir, idx, sz int) string {
	return MsgIdent(MakeMsg(tag, dir, idx, sz))
}

// errDetail renders the detail messages of a status error ("" if none).
func errDetail(err error) string {
	st, ok := status.FromError(err)
	if !ok || err == nil || err == io.EOF {
		return ""
	}
	ds := st.Proto().GetDetails()
	if len(ds) == 0 {
		return ""
	}
	var parts []string
	for _, d := range ds {
		parts = append(parts, fmt.Sprintf("%s:%x", d.TypeUrl, d.Value))
	}
	return "details=[" + strings.Join(parts, ",") + "]"
}

func errFields(err error) (string, string) {
	if err == nil {
		return "", "OK"
	}
	if err == io.EOF {
		return "EOF", "EOF"
	}
	if st, ok := status.FromError(err); ok {
		return st.Message(), st.Code().String()
	}
	switch {
	case errors.Is(err, context.Canceled):
		return err.Error(), "ctx.Canceled"
	case errors.Is(err, context.DeadlineExceeded):
		return err.Error(), "ctx.DeadlineExceeded"
	}
	return err.Error(), "non-status"
}

// IvalKey is the context key under which scenarios store an "interceptor-set" value.
type IvalKey struct{}

// ---- handler scripts --------------------------------------------------------------

// HOp is one handler operation.
type HOp struct {
	K    string // recv | recvall | send | sethdr | sendhdr | settrl | sleep | waitctx | readctx | return
	Size int
	MD   metadata.MD
	D    time.Duration
	Code codes.Code
	Msg  string
	// Details is the number of detail messages attached to a returned error status.
	Details int
}

// HandlerScript is what a handler does for one RPC.
type HandlerScript struct {
	ID  string
	Tag byte
	Ops []HOp
	// KeepGoing makes the script continue after a failed recv/send instead of returning
	// that error at once.
	KeepGoing bool
	// Hook runs inside the handler before the first op (used by C17 to mutate accessors).
	Hook func(ctx context.Context, w *World, actor string)
}

// TestServer implements the four methods of the hand-written service verif.T.
type TestServer struct {
	W    *World
	Name string // identity of the serving instance (C12, C17)
}

const ScriptKey = "vscript"

var TestSvcDesc = grpc.ServiceDesc{
	ServiceName: "verif.T",
	HandlerType: (*any)(nil),
	Methods: []grpc.MethodDesc{{MethodName: "Unary", Handler: func(srv any, ctx context.Context, dec func(any) error, _ grpc.UnaryServerInterceptor) (any, error) {
		return srv.(*TestServer).unary(ctx, dec)
	}}},
	Streams: []grpc.StreamDesc{
		{StreamName: "ClientStream", ClientStreams: true, Handler: func(srv any, ss grpc.ServerStream) error { return srv.(*TestServer).stream(ss, "ClientStream") }},
		{StreamName: "ServerStream", ServerStreams: true, Handler: func(srv any, ss grpc.ServerStream) error { return srv.(*TestServer).stream(ss, "ServerStream") }},
		{StreamName: "Bidi", ClientStreams: true, ServerStreams: true, Handler: func(srv any, ss grpc.ServerStream) error { return srv.(*TestServer).stream(ss, "Bidi") }},
	},
}

type hIO struct {
	ctx     context.Context
	recv    func(m any) error
	send    func(m any) error
	setHdr  func(metadata.MD) error
	sendHdr func(metadata.MD) error
	setTrl  func(metadata.MD) error
	unary   bool
}

func (ts *TestServer) script(ctx context.Context, method string) *HandlerScript {
	md, _ := metadata.FromIncomingContext(ctx)
	id := ""
	if v := md.Get(ScriptKey); len(v) > 0 {
		id = v[0]
	}
	ts.W.mu.Lock()
	hs := ts.W.Scripts[id]
	if hs == nil {
		hs = ts.W.Scripts["*"]
	}
	n := 0
	for _, e := range ts.W.Events {
		if e.Op == "invoked" {
			n++
		}
	}
	ts.W.mu.Unlock()
	if hs == nil {
		hs = &HandlerScript{ID: fmt.Sprintf("anon%d", n), Tag: 200, Ops: []HOp{{K: "recvall"}, {K: "return", Size: 3}}}
	}
	return hs
}

func (ts *TestServer) unary(ctx context.Context, dec func(any) error) (any, error) {
	hs := ts.script(ctx, "Unary")
	var resp any
	hio := &hIO{ctx: ctx, recv: dec, unary: true,
		setHdr:  func(md metadata.MD) error { return grpc.SetHeader(ctx, md) },
		sendHdr: func(md metadata.MD) error { return grpc.SendHeader(ctx, md) },
		setTrl:  func(md metadata.MD) error { return grpc.SetTrailer(ctx, md) },
		send:    func(m any) error { resp = m; return nil },
	}
	err := ts.run(hs, hio, "Unary")
	if err != nil {
		return nil, err
	}
	if resp == nil {
		m := MakeMsg(hs.Tag, 1, 0, 3)
		ts.W.Log(Event{Actor: "handler:" + hs.ID, Op: "send-begin", Idx: 0, Detail: "m=" + MsgIdent(m)})
		ts.W.Log(Event{Actor: "handler:" + hs.ID, Op: "send", Idx: 0, Detail: "m=" + MsgIdent(m)})
		resp = m
	}
	return resp, nil
}

func (ts *TestServer) stream(ss grpc.ServerStream, method string) error {
	hs := ts.script(ss.Context(), method)
	hio := &hIO{ctx: ss.Context(), recv: ss.RecvMsg, send: ss.SendMsg, setHdr: ss.SetHeader, sendHdr: ss.SendHeader,
		setTrl: func(md metadata.MD) error { ss.SetTrailer(md); return nil }}
	return ts.run(hs, hio, method)
}

func (ts *TestServer) run(hs *HandlerScript, h *hIO, method string) (ret error) {
	w := ts.W
	actor := "handler:" + hs.ID
	w.Log(Event{Actor: actor, Op: "invoked", Detail: method + "@" + ts.Name})
	defer func() {
		em, ec := errFields(ret)
		w.Log(Event{Actor: actor, Op: "returned", Err: em, Code: ec})
	}()
	w.mu.Lock()
	w.Vals["hctx:"+hs.ID] = h.ctx
	w.mu.Unlock()
	if hs.Hook != nil {
		hs.Hook(h.ctx, w, actor)
	}
	nRecv, nSent := 0, 0
	// like much hand-written gRPC code, the scripts reuse ONE message value for all their
	// receives: every delivery must be exactly the message that was sent, not a merge with the
	// previous one
	reused := &wrapperspb.BytesValue{}
	for i, op := range hs.Ops {
		w.Point("h:" + hs.ID + ":" + op.K)
		switch op.K {
		case "recv", "recvall":
			for {
				m := reused
				w.Log(Event{Actor: actor, Op: "recv-begin", Idx: nRecv})
				err := h.recv(m)
				em, ec := errFields(err)
				d := ""
				if err == nil {
					d = "m=" + MsgIdent(m)
				}
				w.Log(Event{Actor: actor, Op: "recv", Idx: nRecv, Err: em, Code: ec, Detail: d})
				nRecv++
				if err != nil {
					if err != io.EOF && !hs.KeepGoing {
						return err
					}
					break
				}
				if op.K == "recv" {
					break
				}
				w.Point("h:" + hs.ID + ":recvall")
			}
		case "send":
			m := MakeMsg(hs.Tag, 1, nSent, op.Size)
			w.Log(Event{Actor: actor, Op: "send-begin", Idx: nSent, Detail: "m=" + MsgIdent(m)})
			err := h.send(m)
			em, ec := errFields(err)
			w.Log(Event{Actor: actor, Op: "send", Idx: nSent, Err: em, Code: ec, Detail: "m=" + MsgIdent(m)})
			nSent++
			if err != nil && !hs.KeepGoing {
				return err
			}
		case "sethdr", "sendhdr", "settrl":
			f := map[string]func(metadata.MD) error{"sethdr": h.setHdr, "sendhdr": h.sendHdr, "settrl": h.setTrl}[op.K]
			own := op.MD.Copy()
			err := f(own)
			// like real handlers may (grpc-go copies), the script goes on using its own map
			for k, v := range own {
				for i := range v {
					v[i] = "overwritten-after-" + op.K
				}
				own[k] = append(v, "appended-after-"+op.K)
			}
			own["added-after"] = []string{op.K}
			em, ec := errFields(err)
			w.Log(Event{Actor: actor, Op: op.K, Idx: i, Err: em, Code: ec, Detail: mdString(op.MD)})
		case "sleep":
			w.Sleep(op.D)
		case "waitfault":
			w.WaitUntil("h:waitfault", func() bool {
				for _, e := range w.Events {
					if e.Actor == "fault" {
						return true
					}
				}
				return h.ctx.Err() != nil
			})
		case "waitctx":
			w.WaitUntil("h:waitctx", func() bool { return h.ctx.Err() != nil })
			em, ec := errFields(h.ctx.Err())
			w.Log(Event{Actor: actor, Op: "ctxdone", Err: em, Code: ec})
		case "readctx":
			md, _ := metadata.FromIncomingContext(h.ctx)
			md = md.Copy()
			delete(md, ScriptKey)
			d := "md=" + mdString(md)
			if dl, ok := h.ctx.Deadline(); ok {
				d += fmt.Sprintf(" deadline=%d", int64(time.Until(dl)))
			} else {
				d += " deadline=none"
			}
			tmd, ok := grpctunnel.TunnelMetadataFromIncomingContext(h.ctx)
			d += fmt.Sprintf(" tunmd=%s/%v", mdString(tmd), ok)
			if p, ok := peer.FromContext(h.ctx); ok && p.Addr != nil {
				d += " peer=" + p.Addr.String()
			} else {
				d += " peer=none"
			}
			d += fmt.Sprintf(" ival=%v", h.ctx.Value(IvalKey{}))
			w.Log(Event{Actor: actor, Op: "ctx", Detail: d})
		case "return":
			if op.Code != codes.OK {
				return MakeStatus(op.Code, op.Msg, op.Details).Err()
			}
			if h.unary {
				m := MakeMsg(hs.Tag, 1, 0, op.Size)
				w.Log(Event{Actor: actor, Op: "send-begin", Idx: 0, Detail: "m=" + MsgIdent(m)})
				_ = h.send(m)
				w.Log(Event{Actor: actor, Op: "send", Idx: 0, Detail: "m=" + MsgIdent(m)})
			}
			return nil
		default:
			panic("unknown handler op " + op.K)
		}
	}
	return nil
}

// MakeStatus builds a status with n detail messages.
func MakeStatus(c codes.Code, msg string, n int) *status.Status {
	st := status.New(c, msg)
	if n > 0 && c != codes.OK {
		p := st.Proto()
		for i := 0; i < n; i++ {
			a, _ := anypb.New(wrapperspb.String(fmt.Sprintf("detail-%d", i)))
			p.Details = append(p.Details, a)
		}
		st = status.FromProto(p)
	}
	return st
}

// ---- caller scripts ---------------------------------------------------------------

// COp is one caller operation.
type COp struct {
	K    string // invoke | new | send | closesend | recv | recvall | header | trailer | cancel | targets | sleep
	Size int
	D    time.Duration
}

// CallSpec is one scripted RPC issued by a caller actor.
type CallSpec struct {
	ID      string
	Tag     byte
	Method  string // Unary | ClientStream | ServerStream | Bidi | raw full method name (with '/')
	MD      metadata.MD
	Timeout time.Duration
	Ops     []COp
	// call options
	HeaderOpt, TrailerOpt, PeerOpt, ChanOpt bool
	Creds                                   credentials.PerRPCCredentials
	NoScriptKey                             bool
	// CtxHook decorates the caller context (C17).
	CtxHook func(context.Context) context.Context
	// PreCancel cancels the RPC's context before the RPC is started.
	PreCancel bool
	// KeepCtx: the RPC's context is never cancelled by the caller (like context.Background()),
	// so anything that waits for it outlives the call unless the library ends it.
	KeepCtx bool
	// BadRequest: the request of an "invoke" op cannot be marshalled (a string field that is not
	// valid UTF-8), so SendMsg fails inside Invoke.
	BadRequest bool
}

func methodDesc(m string) (full string, sd *grpc.StreamDesc) {
	switch m {
	case "Unary":
		return "/verif.T/Unary", &grpc.StreamDesc{}
	case "ClientStream":
		return "/verif.T/ClientStream", &grpc.StreamDesc{ClientStreams: true}
	case "ServerStream":
		return "/verif.T/ServerStream", &grpc.StreamDesc{ServerStreams: true}
	case "Bidi":
		return "/verif.T/Bidi", &grpc.StreamDesc{ClientStreams: true, ServerStreams: true}
	}
	// raw method name: "<shape>|<full>" selects the stream desc
	if i := strings.IndexByte(m, '|'); i >= 0 {
		_, sd := methodDesc(m[:i])
		return m[i+1:], sd
	}
	return m, &grpc.StreamDesc{ClientStreams: true, ServerStreams: true}
}

// RunCall executes spec against conn on the calling thread, logging every result.
func (w *World) RunCall(conn grpc.ClientConnInterface, spec *CallSpec) {
	actor := "caller:" + spec.ID
	ctx := context.Background()
	var cancel context.CancelFunc
	if spec.Timeout > 0 {
		ctx, cancel = context.WithTimeout(ctx, spec.Timeout)
	} else {
		ctx, cancel = context.WithCancel(ctx)
	}
	if !spec.KeepCtx {
		defer cancel()
	}
	w.registerCancel(spec.ID, cancel)
	if spec.PreCancel {
		cancel()
	}
	if spec.CtxHook != nil {
		ctx = spec.CtxHook(ctx)
	}
	var md metadata.MD
	if spec.MD != nil {
		md = spec.MD.Copy()
	}
	if !spec.NoScriptKey {
		if md == nil {
			md = metadata.MD{}
		}
		md.Set(ScriptKey, spec.ID)
	}
	if md != nil {
		ctx = metadata.NewOutgoingContext(ctx, md)
	}
	var hdrT, trlT metadata.MD
	var peerT peer.Peer
	var chT grpctunnel.TunnelChannel
	var opts []grpc.CallOption
	if spec.HeaderOpt {
		opts = append(opts, grpc.Header(&hdrT))
	}
	if spec.TrailerOpt {
		opts = append(opts, grpc.Trailer(&trlT))
	}
	if spec.PeerOpt {
		opts = append(opts, grpc.Peer(&peerT))
	}
	if spec.ChanOpt {
		opts = append(opts, grpctunnel.WithTunnelChannel(&chT))
	}
	if spec.Creds != nil {
		opts = append(opts, grpc.PerRPCCredentials(spec.Creds))
	}
	full, sd := methodDesc(spec.Method)
	var cs grpc.ClientStream
	nSent, nRecv := 0, 0
	reused := &wrapperspb.BytesValue{} // see TestServer.run
	logTargets := func() {
		d := ""
		if spec.HeaderOpt {
			d += " hdrT=" + mdString(hdrT)
		}
		if spec.TrailerOpt {
			d += " trlT=" + mdString(trlT)
		}
		if spec.PeerOpt {
			if peerT.Addr != nil {
				d += " peerT=" + peerT.Addr.String()
			} else {
				d += " peerT=none"
			}
		}
		if spec.ChanOpt {
			d += " chT=" + w.ChanName(chT)
		}
		w.Log(Event{Actor: actor, Op: "targets", Detail: strings.TrimSpace(d)})
	}
	for _, op := range spec.Ops {
		w.Point("c:" + spec.ID + ":" + op.K)
		switch op.K {
		case "invoke":
			req := MakeMsg(spec.Tag, 0, 0, op.Size)
			var reqAny any = req
			if spec.BadRequest {
				reqAny = &wrapperspb.StringValue{Value: "\xff\xfe"}
			}
			resp := &wrapperspb.BytesValue{}
			w.Log(Event{Actor: actor, Op: "send-begin", Idx: 0, Detail: "m=" + MsgIdent(req)})
			w.Log(Event{Actor: actor, Op: "recv-begin", Idx: 0})
			err := conn.Invoke(ctx, full, reqAny, resp, opts...)
			em, ec := errFields(err)
			d := errDetail(err)
			if err == nil {
				d = "m=" + MsgIdent(resp)
			}
			w.Log(Event{Actor: actor, Op: "invoke", Err: em, Code: ec, Detail: d})
		case "new":
			var err error
			cs, err = conn.NewStream(ctx, sd, full, opts...)
			em, ec := errFields(err)
			w.Log(Event{Actor: actor, Op: "new", Err: em, Code: ec})
			if err != nil {
				return
			}
			if ch := grpctunnel.TunnelChannelFromContext(cs.Context()); ch != nil {
				d := w.ChanName(ch)
				if tmd, ok := grpctunnel.TunnelMetadataFromOutgoingContext(cs.Context()); ok {
					d += " outtunmd=" + mdString(tmd)
					// the accessor must hand out a private copy: mutate it
					tmd.Set("mutated-by-caller", spec.ID)
					delete(tmd, "a")
				}
				w.Log(Event{Actor: actor, Op: "ctxchan", Detail: d})
			} else if _, tunneled := conn.(grpctunnel.TunnelChannel); tunneled || spec.ChanOpt {
				// the stream of a tunneled RPC whose context does not identify its tunnel
				w.Log(Event{Actor: actor, Op: "ctxchan", Detail: "<none> outtunmd=<none>"})
			}
		case "send":
			m := MakeMsg(spec.Tag, 0, nSent, op.Size)
			w.Log(Event{Actor: actor, Op: "send-begin", Idx: nSent, Detail: "m=" + MsgIdent(m)})
			err := cs.SendMsg(m)
			em, ec := errFields(err)
			w.Log(Event{Actor: actor, Op: "send", Idx: nSent, Err: em, Code: ec, Detail: "m=" + MsgIdent(m)})
			nSent++
		case "closesend":
			err := cs.CloseSend()
			em, ec := errFields(err)
			w.Log(Event{Actor: actor, Op: "closesend", Err: em, Code: ec})
		case "recv", "recvall":
			for {
				m := reused
				w.Log(Event{Actor: actor, Op: "recv-begin", Idx: nRecv})
				err := cs.RecvMsg(m)
				em, ec := errFields(err)
				d := errDetail(err)
				if err == nil {
					d = "m=" + MsgIdent(m)
				}
				w.Log(Event{Actor: actor, Op: "recv", Idx: nRecv, Err: em, Code: ec, Detail: d})
				nRecv++
				if err != nil || op.K == "recv" {
					break
				}
				w.Point("c:" + spec.ID + ":recvall")
			}
		case "header":
			h, err := cs.Header()
			em, ec := errFields(err)
			w.Log(Event{Actor: actor, Op: "header", Err: em, Code: ec, Detail: mdString(h)})
		case "trailer":
			w.Log(Event{Actor: actor, Op: "trailer", Detail: mdString(cs.Trailer())})
		case "targets":
			logTargets()
		case "cancel":
			cancel()
			w.Log(Event{Actor: actor, Op: "cancel"})
		case "sleep":
			w.Sleep(op.D)
		case "waitrecv":
			// wait until the handler has received op.Size messages and everything that caused
			// (window updates) has been digested
			w.WaitUntil("c:waitrecv", func() bool {
				n := 0
				for _, e := range w.Events {
					if e.Actor == "handler:"+spec.ID && e.Op == "recv" && e.OK() {
						n++
					}
				}
				return (n >= op.Size && w.RecvLoopsIdle()) || ctx.Err() != nil
			})
		case "waitdone":
			// wait until the RPC has been finished from the other side (its context is done)
			w.WaitUntil("c:waitdone", func() bool { return cs.Context().Err() != nil })
		case "waitsaid":
			w.WaitUntil("c:waitsaid", func() bool { return w.Vals["peer-said-all"] != nil || w.Vals["rpc-done"] != nil })
		case "waitpeer":
			// wait until the scripted peer has nothing more to say (it parks at raw:rpc-done
			// or has finished) - the explorer decides when the caller then proceeds
			w.WaitUntil("c:waitpeer", func() bool {
				for _, th := range w.S.Threads {
					if strings.HasPrefix(th.Name, "net:") && strings.HasSuffix(th.Name, ":handler") {
						if !(th.Done || (th.Parked && th.Site == "raw:rpc-done")) {
							return false
						}
					}
				}
				return true
			})
		case "waitfault":
			w.WaitUntil("c:waitfault", func() bool {
				for _, e := range w.Events {
					if e.Actor == "fault" {
						return true
					}
				}
				for _, t := range w.Tuns {
					if t.Ch != nil && chanDone(t) {
						return true
					}
				}
				return time.Since(w.Start) >= op.D && op.D > 0
			})
		default:
			panic("unknown caller op " + op.K)
		}
	}
}

// ChanName names a tunnel channel by the order in which the harness learned of it.
func (w *World) ChanName(ch grpctunnel.TunnelChannel) string {
	if ch == nil {
		return "nil"
	}
	w.mu.Lock()
	defer w.mu.Unlock()
	m, _ := w.Vals["channames"].(map[grpctunnel.TunnelChannel]string)
	if m == nil {
		m = map[grpctunnel.TunnelChannel]string{}
		w.Vals["channames"] = m
	}
	if n, ok := m[ch]; ok {
		return n
	}
	n := fmt.Sprintf("ch%d", len(m))
	m[ch] = n
	return n
}

// NameChan registers a name for a channel.
func (w *World) NameChan(ch grpctunnel.TunnelChannel, name string) {
	w.mu.Lock()
	defer w.mu.Unlock()
	m, _ := w.Vals["channames"].(map[grpctunnel.TunnelChannel]string)
	if m == nil {
		m = map[grpctunnel.TunnelChannel]string{}
		w.Vals["channames"] = m
	}
	m[ch] = name
}

func protoMarshal(m *wrapperspb.BytesValue) ([]byte, error) { return proto.Marshal(m) }
