package harness

import (
	"fmt"
	"time"

	"github.com/jhump/grpctunnel"
	"github.com/jhump/grpctunnel/tunnelpb"
	"github.com/jhump/grpctunnel/verifrt"
	"google.golang.org/grpc/codes"
	"google.golang.org/grpc/metadata"
)

// c03: bystander RPCs must complete exactly as they would alone, whatever a disturber RPC
// on the same tunnel does.

type disturber struct {
	// focus: explore at lock granularity of these functions instead of frame granularity
	focus []string
	name  string
	wl    func() Workload
	// fcOnly: only meaningful with flow control (never-reading consumers)
	fcOnly bool
	// pre runs on the main thread before the disturber starts (e.g. InitiateShutdown)
	shutdown bool
	// stuck: the disturber never finishes by itself; it is cancelled once the bystanders are done
	stuck   bool
	horizon int
}

func c03Disturbers() []disturber {
	return []disturber{
		{name: "handler-error", wl: func() Workload {
			wl := StdWorkload("d", 9, "Bidi", []int{3}, nil)
			wl.Handler.Ops = []HOp{{K: "recv"}, {K: "return", Code: codes.Internal, Msg: "boom"}}
			return wl
		}},
		{name: "unknown-method", wl: func() Workload {
			wl := StdWorkload("d", 9, "Bidi", []int{3}, nil)
			wl.Call.Method = "Bidi|/verif.T/Nope"
			return wl
		}},
		{name: "malformed-method", wl: func() Workload {
			wl := StdWorkload("d", 9, "Bidi", []int{3}, nil)
			wl.Call.Method = "Bidi|noslash"
			return wl
		}},
		{name: "empty-method", wl: func() Workload {
			wl := StdWorkload("d", 9, "Unary", []int{3}, []int{3})
			wl.Call.Method = "Unary|"
			return wl
		}},
		{name: "after-shutdown", shutdown: true, wl: func() Workload { return StdWorkload("d", 9, "Bidi", []int{16385}, []int{3}) }},
		{name: "cancelled", wl: func() Workload {
			wl := StdWorkload("d", 9, "Bidi", []int{16385}, nil)
			wl.Call.Ops = []COp{{K: "new"}, {K: "send", Size: 16385}, {K: "cancel"}, {K: "send", Size: 3}, {K: "recvall"}}
			wl.Handler.Ops = []HOp{{K: "recvall"}, {K: "return"}}
			return wl
		}},
		{name: "pre-cancelled", focus: []string{"newStream", "allocateStream", "cancelStream", "finishStream", "Send", "SendMsg", "removeStream"}, wl: func() Workload {
			// an RPC whose context is already cancelled when it is started
			wl := StdWorkload("d", 9, "Unary", []int{3}, []int{3})
			wl.Call.PreCancel = true
			return wl
		}},
		{name: "deadline", horizon: 2, wl: func() Workload {
			wl := StdWorkload("d", 9, "Bidi", []int{3}, nil)
			wl.Call.Timeout = 1500 * time.Millisecond
			wl.Call.Ops = []COp{{K: "new"}, {K: "send", Size: 3}, {K: "recvall"}}
			wl.Handler.Ops = []HOp{{K: "recvall"}, {K: "return"}}
			return wl
		}},
		{name: "exact-window-twice", fcOnly: true, wl: func() Workload {
			// two requests that each serialise to exactly one window (65536 bytes):
			// the send window reaches exactly zero at the end of each message and is re-opened in
			// between without the sender ever having to wait
			wl := StdWorkload("d", 9, "ClientStream", []int{65536, 65536}, []int{3})
			wl.Call.Ops = []COp{{K: "new"}, {K: "send", Size: 65536}, {K: "waitrecv", Size: 1}, {K: "send", Size: 65536}, {K: "waitrecv", Size: 2}, {K: "closesend"}, {K: "recvall"}}
			return wl
		}},
		{name: "caller-never-reads", fcOnly: true, stuck: true, wl: func() Workload {
			wl := StdWorkload("d", 9, "ServerStream", []int{3}, nil)
			wl.Call.Ops = []COp{{K: "new"}, {K: "send", Size: 3}, {K: "closesend"}, {K: "waitdone"}, {K: "recvall"}}
			wl.Handler.Ops = []HOp{{K: "recv"}, {K: "send", Size: 200000}, {K: "return"}}
			return wl
		}},
		{name: "handler-never-reads", fcOnly: true, stuck: true, wl: func() Workload {
			wl := StdWorkload("d", 9, "ClientStream", nil, nil)
			wl.Call.Ops = []COp{{K: "new"}, {K: "send", Size: 200000}, {K: "closesend"}, {K: "recvall"}}
			wl.Handler.Ops = []HOp{{K: "waitctx"}, {K: "return", Code: codes.Aborted, Msg: "never read"}}
			return wl
		}},
		{name: "caller-never-reads-small", stuck: true, wl: func() Workload {
			// several small unread responses: under revision zero they park the client's receive
			// loop in the hand-off to this stream until the RPC is cancelled - after which
			// everything else must run again
			wl := StdWorkload("d", 9, "ServerStream", []int{3}, nil)
			// (the caller abandons the stream after the cancellation: it never drains it)
			wl.Call.Ops = []COp{{K: "new"}, {K: "send", Size: 3}, {K: "closesend"}, {K: "waitdone"}}
			wl.Handler.Ops = []HOp{{K: "recv"}, {K: "send", Size: 3}, {K: "send", Size: 3}, {K: "send", Size: 3}, {K: "send", Size: 3}, {K: "return"}}
			wl.Handler.KeepGoing = true
			return wl
		}},
		{name: "handler-never-reads-small", stuck: true, wl: func() Workload {
			wl := StdWorkload("d", 9, "ClientStream", nil, nil)
			wl.Call.Ops = []COp{{K: "new"}, {K: "send", Size: 3}, {K: "send", Size: 3}, {K: "send", Size: 3}, {K: "send", Size: 3}, {K: "recvall"}}
			wl.Handler.Ops = []HOp{{K: "waitctx"}, {K: "return", Code: codes.Aborted, Msg: "never read"}}
			return wl
		}},
		{name: "bin-metadata", wl: func() Workload {
			wl := StdWorkload("d", 9, "Unary", []int{3}, []int{3})
			wl.Call.MD = metadata.MD{"k-bin": {"\x00\xff\x80"}}
			return wl
		}},
		{name: "bin-trailer", wl: func() Workload {
			wl := StdWorkload("d", 9, "Unary", []int{3}, []int{3})
			wl.Handler.Ops = append([]HOp{{K: "settrl", MD: metadata.MD{"k-bin": {"\x00\xff\x80"}}}}, wl.Handler.Ops...)
			return wl
		}},
	}
}

func c03Bystanders() []Workload {
	return []Workload{
		StdWorkload("b1", 1, "Unary", []int{3}, []int{3}),
		StdWorkload("b2", 2, "Bidi", []int{16385, 16385}, []int{16385, 16385}),
		StdWorkload("b3", 3, "ClientStream", []int{70000}, []int{3}),
	}
}

func c03Scenarios(tier string) []*Scenario {
	var scs []*Scenario
	thorough := tier == "thorough"
	for _, cfg := range []TunCfg{{}, {Cap: 1}, {Reverse: true}, {Reverse: true, Cap: 1}, {ServerNoFC: true}} {
		for _, d := range c03Disturbers() {
			if d.fcOnly && !cfg.FlowControlled() {
				continue
			}
			if d.shutdown && cfg.Reverse && cfg.Cap != 0 {
				continue
			}
			for _, set := range [][]int{{0}, {1}, {2}, {0, 1, 2}, {-1}} {
				cfg, d, set := cfg, d, set
				// set {-1}: the second default-scheduler family, only for disturbers explored at
				// lock granularity (bystander b1)
				revOrder := false
				if len(set) == 1 && set[0] == -1 {
					if d.focus == nil {
						continue
					}
					set, revOrder = []int{0}, true
				}
				if len(set) == 3 && !thorough && (cfg.Cap == 1 || cfg.ServerNoFC) {
					continue
				}
				bound := 1
				if thorough {
					bound = 2
				}
				var by []Workload
				var ids []string
				for _, i := range set {
					by = append(by, c03Bystanders()[i])
					ids = append(ids, c03Bystanders()[i].Call.ID)
				}
				dw := d.wl()
				opt := Options{Level: "io", Bound: bound, Horizon: d.horizon}
				if d.focus != nil {
					if len(set) != 1 || cfg.Cap != 0 {
						continue
					}
					opt = Options{Level: "focus", Focus: d.focus, Bound: bound, RevOrder: revOrder}
				}
				scs = append(scs, &Scenario{
					Name: fmt.Sprintf("c03/%s/%s/by=%v/rev=%v", cfg, d.name, ids, revOrder), Prop: "C03", Heavy: bound >= 3 || d.focus != nil,
					Desc: fmt.Sprintf("bystander RPCs %v and a disturber %q share a %s tunnel; all relative timings of their frames with <= %d deviations; bystanders must complete exactly as alone and the tunnel must stay up", ids, d.name, cfg, bound),
					Opt:  opt,
					Run: func(w *World) {
						t := w.OpenTunnel(cfg)
						if t.StartErr != nil {
							return
						}
						var bth []*verifrt.Thread
						if d.shutdown {
							// the bystanders must be in flight (accepted by the server) before the shutdown
							bth = w.StartCallers(t, by)
							w.WaitUntil("bystanders-in-flight", func() bool {
								n := 0
								for _, e := range w.Events {
									if e.Op == "invoked" {
										n++
									}
								}
								return n >= len(by)
							})
							w.Point("env:shutdown")
							if cfg.Reverse {
								// GracefulStop blocks until the tunnel has ended: it runs on its own thread
								// and has taken effect once that thread waits for Serve to return
								w.Log(Event{Actor: "fault", Op: "gstop"})
								g := w.Go("gstopper", true, func() { t.RevSrv.GracefulStop() })
								w.WaitUntil("gstop-effective", func() bool { return g.Done || (g.Parked && g.Kind == "wgwait") })
							} else {
								t.Handler.InitiateShutdown()
							}
						}
						dth := w.StartCallers(t, []Workload{dw})
						if !d.shutdown {
							bth = w.StartCallers(t, by)
						}
						if d.stuck {
							// the disturber never ends by itself: it is cancelled as a last resort,
							// i.e. when nothing else can run (under revision zero the bystanders may
							// legitimately be held up until then); earlier cancels are deviations
							w.StartFault(t, "cancel:d")
						}
						w.Join(bth...)
						w.Point("env:check-up")
						w.Log(Event{Actor: "env", Op: "tunnel-up", Detail: fmt.Sprint(!chanDone(t))})
						w.Join(dth...)
						t.Close()
					},
					Check: func(w *World, x *Exec) []Violation {
						vs := NoHang(x, "C03")
						if x.Hang {
							vs[0].Sig = "indep:" + d.name + ":" + vs[0].Sig
							return vs
						}
						for _, wl := range by {
							for _, v := range completeOK(w, "C03", wl) {
								v.Sig = "indep:" + d.name + ":bystander-failed"
								v.Rule = "bystander-unaffected"
								vs = append(vs, v)
							}
						}
						vs = append(vs, msgOracle(w, "C03", ids)...)
						for _, e := range w.EventsOf("env") {
							if e.Op == "tunnel-up" && e.Detail != "true" {
								vs = append(vs, Violation{Prop: "C03", Rule: "tunnel-stays-up", Sig: "indep:" + d.name + ":tunnel-down", Detail: "the tunnel was down when the bystanders finished\n" + w.Outcome()})
							}
						}
						if d.shutdown {
							for _, e := range w.EventsOf("caller:d") {
								if (e.Op == "recv" || e.Op == "invoke") && !e.OK() && e.Code != "Unavailable" && e.Code != "EOF" {
									vs = append(vs, Violation{Prop: "C03", Rule: "refused-with-unavailable", Sig: "indep:after-shutdown:wrong-code:" + e.Code, Detail: w.Outcome()})
								}
							}
						}
						return vs
					},
				})
			}
		}
	}
	// a single-threaded raw peer on a carrier of capacity 2: it opens a bystander stream, bursts
	// more rejected new-streams than the carrier can hold, finishes the bystander's requests and
	// only then starts to read. The rejections must not stop the server from reading.
	for _, nRej := range []int{3, 8} {
		nRej := nRej
		b := 1
		if thorough {
			b = 2
		}
		scs = append(scs, &Scenario{
			Name: fmt.Sprintf("c03/raw-burst-rejections/%d", nRej), Prop: "C03",
			Desc: fmt.Sprintf("scripted single-threaded client on a carrier of capacity 2: bystander new_stream + message, %d new_streams for an unknown method, the bystander's second message and half-close, and only then does it read; <= %d deviations", nRej, b),
			Opt:  Options{Level: "io", Bound: b},
			Run: func(w *World) {
				h := grpctunnel.NewTunnelServiceHandler(grpctunnel.TunnelServiceHandlerOptions{})
				h.RegisterService(&TestSvcDesc, &TestServer{W: w, Name: "fwd"})
				n := NewNet(w, "T")
				n.Cap = 2
				tunnelpb.RegisterTunnelServiceServer(n, h.Service())
				w.Scripts["by"] = &HandlerScript{ID: "by", Tag: 1, Ops: []HOp{{K: "recvall"}, {K: "send", Size: 3}, {K: "return"}}}
				w.Vals["rawclient:hold-reader"] = true
				rc, err := w.OpenRawClient(n, true)
				if err != nil {
					return
				}
				w.Vals["rc"] = rc
				peer := w.Go("a-rawclient", true, func() {
					m := msgBytes(1, 0, 0, 3)
					_ = rc.Send(fNew(1, "/verif.T/ClientStream", 1, 65536, "by"))
					_ = rc.Send(fReq(1, uint32(len(m)), m))
					for i := 0; i < nRej; i++ {
						_ = rc.Send(fNew(int64(2+i), "/verif.T/Nope", 1, 65536, ""))
					}
					_ = rc.Send(fReq(1, uint32(len(m)), m))
					_ = rc.Send(fHalf(1))
					delete(w.Vals, "rawclient:hold-reader")
					w.WaitUntil("raw:settled", func() bool {
						if rc.Done {
							return true
						}
						for id := int64(1); id < int64(2+nRej); id++ {
							if len(rc.CloseOf(id)) == 0 {
								return false
							}
						}
						return true
					})
					rc.Finish()
				})
				w.Join(peer)
				w.Drain()
			},
			Check: func(w *World, x *Exec) []Violation {
				vs := NoHang(x, "C03")
				if x.Hang {
					vs[0].Sig = "indep:raw-burst-rejections:" + vs[0].Sig
					return vs
				}
				rc, _ := w.Vals["rc"].(*RawClient)
				if rc == nil {
					return vs
				}
				if cl := rc.CloseOf(1); len(cl) != 1 || codes.Code(cl[0].GetStatus().GetCode()) != codes.OK {
					vs = append(vs, Violation{Prop: "C03", Rule: "bystander-unaffected", Sig: "indep:raw-burst-rejections:bystander-failed", Detail: fmt.Sprintf("bystander close frames: %v\n%s", cl, w.Outcome())})
				}
				for i := 0; i < nRej; i++ {
					if cl := rc.CloseOf(int64(2 + i)); len(cl) != 1 || codes.Code(cl[0].GetStatus().GetCode()) != codes.Unimplemented {
						vs = append(vs, Violation{Prop: "C03", Rule: "rejections-delivered", Sig: "indep:raw-burst-rejections:rejection-missing", Detail: fmt.Sprintf("stream %d: %v", 2+i, cl)})
						break
					}
				}
				return vs
			},
		})
	}
	return scs
}

func init() {
	register(&PropDef{ID: "C03", Level: "model_checking",
		Rule:      "bystander sets {U}, {B 2x16385 each way}, {CS 70000}, {all three} x disturbers {handler error, unknown / malformed / empty method, RPC after InitiateShutdown, cancelled mid-stream, deadline expiry, caller that never reads a 200 KB response, handler that never reads a 200 KB request (flow control), caller / handler that never reads four small messages and is cancelled only when nothing else can run (also under revision zero, where the stall is by design but the cancellation must free the tunnel), non-UTF-8 '-bin' request metadata / trailer} x {forward, reverse} x carrier capacity {1, unbounded} (+ revision zero for the disturbers that do not rely on flow control); every relative timing of all frames with <= 1 (quick) / 2 (thorough) deviations; oracle INDEP: each bystander ends exactly as it does alone (OK, all messages, byte-identical), the tunnel is still up when they finish, nothing hangs",
		Globals:   []func(*Scenario, *World, *Exec) []Violation{ProtoMonitor},
		Scenarios: c03Scenarios})
}
