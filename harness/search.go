package harness

import (
	"crypto/sha1"
	"encoding/hex"
	"encoding/json"
	"fmt"
	"hash/fnv"
	"os"
	"path/filepath"
	"regexp"
	"strings"
	"testing"
	"time"
)

// Stats accumulates what a run covered.
type Stats struct {
	Scenarios     int               `json:"scenarios"`
	ScenariosDone int               `json:"scenarios_completed"`
	Executions    int               `json:"executions"`
	Steps         int               `json:"steps"`
	MaxDevs       int               `json:"max_deviations_completed"`
	Diverged      int               `json:"diverged_discarded"`
	Abandoned     int               `json:"abandoned_bubbles"`
	ReplayChecks  int               `json:"replay_checks"`
	StepCaps      int               `json:"step_caps"`
	MaxAlloc      int64             `json:"max_alloc_bytes_per_execution"`
	Incomplete    []string          `json:"incomplete,omitempty"`
	Outcomes      map[uint64]bool   `json:"-"`
	States        map[uint64]bool   `json:"-"`
	Conf          map[uint64]bool   `json:"-"`
	Samples       []json.RawMessage `json:"samples,omitempty"`
	Violations    []FoundViolation  `json:"violations,omitempty"`
	Known         map[string]int    `json:"known,omitempty"`
	ByBound       map[int]int       `json:"executions_by_deviations"`
	Flags         map[string]bool   `json:"flags,omitempty"`
	sigSeen       map[string]bool
}

// FoundViolation is a violation together with its replay artefact.
type FoundViolation struct {
	Violation
	Scenario string `json:"scenario"`
	Replay   string `json:"replay"`
	Repro    int    `json:"reproduced"`
}

func NewStats() *Stats {
	return &Stats{Outcomes: map[uint64]bool{}, States: map[uint64]bool{}, Conf: map[uint64]bool{}, Known: map[string]int{},
		ByBound: map[int]int{}, sigSeen: map[string]bool{}, Flags: map[string]bool{}}
}

func hash64(s string) uint64 {
	h := fnv.New64a()
	h.Write([]byte(s))
	return h.Sum64()
}

// ReplayFile is the on-disk artefact of one violating execution.
type ReplayFile struct {
	Property string     `json:"property"`
	Rule     string     `json:"rule"`
	Sig      string     `json:"signature"`
	Detail   string     `json:"detail"`
	Scenario string     `json:"scenario"`
	Desc     string     `json:"description"`
	Level    string     `json:"level"`
	Bound    int        `json:"bound"`
	Choices  []int      `json:"choices"`
	Options  [][]string `json:"options"`
	Trace    []string   `json:"trace"`
	Events   []string   `json:"events"`
	Frames   []string   `json:"frames"`
}

// Explorer drives the search for one worker.
type Explorer struct {
	T        *testing.T
	St       *Stats
	Deadline time.Time
	Known    *KnownFindings
	// Shard restricts first-level subtrees to those with ordinal%Of == Shard (Of>0).
	Shard, Of int
	ReplayDir string
	// Globals are oracles applied to every execution of every scenario.
	Globals []func(sc *Scenario, w *World, x *Exec) []Violation
	Verbose bool
	// abandonedHere counts hung executions of the scenario being explored; each leaks
	// its goroutines, so a scenario that hangs over and over is cut short (its violation
	// has been recorded by then) and reported as not exhaustive.
	abandonedHere int
}

const maxAbandonedPerScenario = 400

func (e *Explorer) expired() bool { return !e.Deadline.IsZero() && time.Now().After(e.Deadline) }

// Explore enumerates every execution of sc with at most sc.Opt.Bound deviations from the
// default schedule (all executions if Unbounded). It returns false if the deadline cut
// the enumeration short.
func (e *Explorer) Explore(sc *Scenario, shardSubtrees bool) bool {
	counts := !shardSubtrees || e.Of <= 1 || e.Shard == 0
	if counts {
		e.St.Scenarios++
	}
	complete := true
	ord := 0
	var rec func(prefix []int, expect [][]string, devs int)
	var prevDevs []string
	e.abandonedHere = 0
	rec = func(prefix []int, expect [][]string, devs int) {
		if e.expired() || e.abandonedHere > maxAbandonedPerScenario {
			complete = false
			return
		}
		x := e.run(sc, prefix, expect)
		if x == nil {
			return
		}
		if os.Getenv("VERIF_DUMP_DEVS") != "" {
			if f, err := os.OpenFile(os.Getenv("VERIF_DUMP_DEVS"), os.O_APPEND|os.O_CREATE|os.O_WRONLY, 0o644); err == nil {
				fmt.Fprintf(f, "DEVS %v\n", prevDevs)
				if len(prevDevs) == 2 && strings.HasPrefix(prevDevs[0], "fault:") && strings.Contains(prevDevs[1], "serveStream#") {
					var pos []int
					for i, c := range x.Choices() {
						if c != 0 {
							pos = append(pos, i)
						}
					}
					fmt.Fprintf(f, "  devpos=%v steps=%d\n", pos, x.Steps)
					for i, p := range x.Points {
						if p.Chosen != 0 {
							fmt.Fprintf(f, "  point %d options=%v chosen=%d\n", i, p.Names, p.Chosen)
						}
					}
					var hv []string
					for _, ev := range x.W.Events {
						if strings.HasPrefix(ev.Actor, "handler:") || ev.Actor == "fault" {
							hv = append(hv, fmt.Sprintf("[%d]%s", ev.Step, ev.String()))
						}
					}
					fmt.Fprintf(f, "  %v\n", hv)
				}
				f.Close()
			}
		}
		if devs > 0 || counts {
			e.account(sc, x, devs)
		}
		if !sc.Opt.Unbounded && devs >= sc.Opt.Bound {
			return
		}
		choices := x.Choices()
		var names [][]string
		for _, p := range x.Points {
			names = append(names, p.Names)
		}
		for i := len(prefix); i < len(x.Points); i++ {
			for alt := 1; alt < len(x.Points[i].Names); alt++ {
				if sc.Opt.DevOK != nil && !sc.Opt.DevOK(x.Points[i].Names[alt], prevDevs) {
					continue
				}
				if devs == 0 && shardSubtrees && e.Of > 0 {
					ord++
					if ord%e.Of != e.Shard {
						continue
					}
				}
				np := append(append([]int{}, choices[:i]...), alt)
				prevDevs = append(prevDevs, x.Points[i].Names[alt])
				rec(np, names[:i+1], devs+1)
				prevDevs = prevDevs[:len(prevDevs)-1]
				if e.expired() || e.abandonedHere > maxAbandonedPerScenario {
					complete = false
					return
				}
			}
		}
	}
	rec(nil, nil, 0)
	if complete {
		if counts {
			e.St.ScenariosDone++
		}
	} else {
		e.St.Incomplete = append(e.St.Incomplete, sc.Name)
	}
	return complete
}

// run executes once, retrying on replay divergence (never reported as a violation).
func (e *Explorer) run(sc *Scenario, prefix []int, expect [][]string) *Exec {
	for attempt := 0; attempt < 3; attempt++ {
		x := RunOnce(e.T, sc, prefix, expect)
		if x.Diverged == "" {
			return x
		}
		e.St.Diverged++
		if e.Verbose {
			fmt.Fprintf(os.Stderr, "DIVERGED %s %v: %s\n", sc.Name, prefix, x.Diverged)
		}
	}
	e.St.Flags["persistent_divergence"] = true
	return nil
}

func (e *Explorer) judge(sc *Scenario, x *Exec) []Violation {
	var vs []Violation
	for _, g := range e.Globals {
		vs = append(vs, g(sc, x.W, x)...)
	}
	if sc.Check != nil {
		vs = append(vs, sc.Check(x.W, x)...)
	}
	return vs
}

func (e *Explorer) account(sc *Scenario, x *Exec, devs int) {
	st := e.St
	if x.Abandoned {
		st.Abandoned++
		e.abandonedHere++
	}
	st.Executions++
	if x.Alloc > st.MaxAlloc {
		st.MaxAlloc = x.Alloc
	}
	st.Steps += x.Steps
	st.ByBound[devs]++
	if x.StepCap {
		st.StepCaps++
	}
	scn := hash64(sc.Name)
	if os.Getenv("VERIF_DUMP_OUTCOMES") != "" && !st.Outcomes[scn^hash64(x.W.Outcome())] {
		if f, err := os.OpenFile(os.Getenv("VERIF_DUMP_OUTCOMES"), os.O_APPEND|os.O_CREATE|os.O_WRONLY, 0o644); err == nil {
			fmt.Fprintf(f, "OUTCOME %s devs=%d: %s\n", sc.Name, devs, x.W.Outcome())
			f.Close()
		}
	}
	st.Outcomes[scn^hash64(x.W.Outcome())] = true
	for _, k := range x.States {
		st.States[scn^k] = true
	}
	if x.Conflict {
		st.Conf[scn^x.ConfSig] = true
	}
	if !x.W.S.SelectOwned {
		st.Flags["select_not_owned"] = true
	}
	if !x.W.S.MapOrderOwned {
		st.Flags["maporder_not_owned"] = true
	}
	if len(st.Samples) < 3 && (devs > 0 || st.Executions == 1) {
		st.Samples = append(st.Samples, sampleOf(sc, x))
	}
	vs := e.judge(sc, x)
	for _, v := range vs {
		if v.Prop == "" {
			v.Prop = sc.Prop
		}
		if e.Known != nil {
			if i := e.Known.Match(v, sc.Name); i >= 0 {
				st.Known[fmt.Sprintf("%s %d", v.Prop, i)]++
				continue
			}
		}
		key := v.Prop + "|" + v.Sig
		if st.sigSeen[key] {
			continue
		}
		st.sigSeen[key] = true
		// confirm: the same choices must reproduce the same violation 5 times
		repro := 0
		for i := 0; i < 5; i++ {
			y := RunOnce(e.T, sc, x.Choices(), nil)
			st.ReplayChecks++
			for _, v2 := range e.judge(sc, y) {
				p2 := v2.Prop
				if p2 == "" {
					p2 = sc.Prop
				}
				if p2 == v.Prop && v2.Sig == v.Sig {
					repro++
					break
				}
			}
		}
		path := e.writeReplay(sc, x, v)
		st.Violations = append(st.Violations, FoundViolation{Violation: v, Scenario: sc.Name, Replay: path, Repro: repro})
	}
}

func sampleOf(sc *Scenario, x *Exec) json.RawMessage {
	var fr []string
	for _, f := range x.W.Tap.Frames {
		fr = append(fr, FrameString(f))
		if len(fr) >= 40 {
			fr = append(fr, "...")
			break
		}
	}
	tr := x.Trace
	if len(tr) > 60 {
		tr = append(append([]string{}, tr[:60]...), "...")
	}
	b, _ := json.Marshal(map[string]any{"scenario": sc.Name, "desc": sc.Desc, "choices": x.Choices(), "schedule": tr,
		"frames": fr, "outcome": x.W.Outcome()})
	return b
}

func (e *Explorer) writeReplay(sc *Scenario, x *Exec, v Violation) string {
	rf := ReplayFile{Property: v.Prop, Rule: v.Rule, Sig: v.Sig, Detail: v.Detail, Scenario: sc.Name, Desc: sc.Desc,
		Level: sc.Opt.Level, Bound: sc.Opt.Bound, Choices: x.Choices(), Trace: x.Trace}
	for _, p := range x.Points {
		rf.Options = append(rf.Options, p.Names)
	}
	for _, ev := range x.W.Events {
		rf.Events = append(rf.Events, fmt.Sprintf("[%d] %s", ev.Step, ev.String()))
	}
	for _, f := range x.W.Tap.Frames {
		rf.Frames = append(rf.Frames, fmt.Sprintf("[%d] %s by %s deliv@%d", f.Step, FrameString(f), f.Sender, f.Deliv))
	}
	b, _ := json.MarshalIndent(rf, "", " ")
	sum := sha1.Sum([]byte(v.Prop + sc.Name + v.Sig))
	dir := filepath.Join(e.ReplayDir, v.Prop)
	_ = os.MkdirAll(dir, 0o755)
	path := filepath.Join(dir, hex.EncodeToString(sum[:6])+".json")
	_ = os.WriteFile(path, b, 0o644)
	return path
}

// KnownFindings is the committed list of recorded (not repaired) genuine defects.
type KnownFindings struct {
	Findings []struct {
		Property string `json:"property"`
		Sig      string `json:"signature"`    // matched as a prefix of the violation signature
		SigRe    string `json:"signature_re"` // or: regular expression on the signature
		ScnRe    string `json:"scenario_re"`  // and (optional): regular expression on the scenario name
		What     string `json:"what"`
	} `json:"findings"`
	Fixed []string `json:"fixed"`
}

func LoadKnown(path string) (*KnownFindings, error) {
	b, err := os.ReadFile(path)
	if err != nil {
		return nil, err
	}
	k := &KnownFindings{}
	if err := json.Unmarshal(b, k); err != nil {
		return nil, err
	}
	return k, nil
}

func (k *KnownFindings) find(prop, sig, scn string) int {
	for i, f := range k.Findings {
		if f.Property != prop {
			continue
		}
		if f.Sig != "" && !strings.HasPrefix(sig, f.Sig) {
			continue
		}
		if f.SigRe != "" {
			if ok, _ := regexp.MatchString(f.SigRe, sig); !ok {
				continue
			}
		}
		if f.ScnRe != "" {
			if ok, _ := regexp.MatchString(f.ScnRe, scn); !ok {
				continue
			}
		}
		if f.Sig == "" && f.SigRe == "" {
			continue
		}
		return i
	}
	return -1
}

// Match reports the index of the known finding that lists this violation, or -1.
func (k *KnownFindings) Match(v Violation, scn string) int { return k.find(v.Prop, v.Sig, scn) }
