package harness

import (
	"encoding/gob"
	"encoding/json"
	"fmt"
	"os"
	"os/exec"
	"path/filepath"
	"runtime"
	"sort"
	"strconv"
	"strings"
	"testing"
	"time"
)

// PropDef describes the check of one property.
type PropDef struct {
	ID          string
	Level       string // evidence "level"
	Rule        string // how cases are enumerated / what is non-trivial
	Assumptions []string
	Scenarios   func(tier string) []*Scenario
	// Globals are monitors applied to every execution of this property's scenarios.
	Globals []func(sc *Scenario, w *World, x *Exec) []Violation
	// Extra runs after the exploration in the driver process (auxiliary passes); it may
	// add keys to coverage and return violations.
	QuickBudget, ThoroughBudget time.Duration
}

var Props = map[string]*PropDef{}

func register(p *PropDef) { Props[p.ID] = p }

func verifDir() string {
	if d := os.Getenv("VERIF_DIR"); d != "" {
		return d
	}
	return "/verif"
}

func TestMain(m *testing.M) {
	switch os.Getenv("VERIF_MODE") {
	case "driver":
		os.Exit(driverMain())
	default:
		runtime.GOMAXPROCS(1)
		os.Exit(m.Run())
	}
}

func envInt(k string, d int) int {
	if v, err := strconv.Atoi(os.Getenv(k)); err == nil {
		return v
	}
	return d
}

func budgetFor(p *PropDef, tier string) time.Duration {
	if s := envInt("VERIF_BUDGET_S", 0); s > 0 {
		return time.Duration(s) * time.Second
	}
	if tier == "thorough" {
		if p.ThoroughBudget > 0 {
			return p.ThoroughBudget
		}
		return 10 * time.Minute
	}
	if p.QuickBudget > 0 {
		return p.QuickBudget
	}
	return 150 * time.Second
}

// ---- worker ---------------------------------------------------------------------------

func TestWorker(t *testing.T) {
	id := os.Getenv("VERIF_PROP")
	p := Props[id]
	if p == nil {
		t.Skip("no VERIF_PROP")
	}
	tier := os.Getenv("VERIF_TIER")
	shard, of := envInt("VERIF_SHARD", 0), envInt("VERIF_OF", 1)
	scs := p.Scenarios(tier)
	known, _ := LoadKnown(filepath.Join(verifDir(), "known_findings.json"))
	e := &Explorer{T: t, St: NewStats(), Known: known, Shard: shard, Of: of,
		ReplayDir: filepath.Join(verifDir(), "replays"), Globals: append([]func(*Scenario, *World, *Exec) []Violation{GenericOracle}, p.Globals...),
		Verbose: os.Getenv("VERIF_VERBOSE") != ""}
	if dl := envInt("VERIF_DEADLINE", 0); dl > 0 {
		e.Deadline = time.Unix(int64(dl), 0)
	}
	byScenario := len(scs) >= 8*of
	if only := os.Getenv("VERIF_ONLY"); only != "" {
		var f []*Scenario
		for _, sc := range scs {
			if strings.Contains(sc.Name, only) {
				f = append(f, sc)
			}
		}
		scs = f
	}
	light := 0
	for i, sc := range scs {
		if sc.Prop == "" {
			sc.Prop = id
		}
		switch {
		case sc.Heavy || !byScenario:
			e.Explore(sc, true)
		case light%of == shard:
			light++
			e.Explore(sc, false)
		default:
			light++
		}
		if e.expired() {
			if shard == 0 {
				// scenarios not reached are reported once
				for _, r := range scs[i+1:] {
					e.St.Scenarios++
					e.St.Incomplete = append(e.St.Incomplete, r.Name)
				}
			}
			break
		}
	}
	out := os.Getenv("VERIF_OUT")
	if out == "" {
		b, _ := json.MarshalIndent(e.St, "", " ")
		fmt.Println(string(b))
		fmt.Printf("outcomes=%d states=%d conf=%d\n", len(e.St.Outcomes), len(e.St.States), len(e.St.Conf))
		return
	}
	f, err := os.Create(out)
	if err != nil {
		t.Fatal(err)
	}
	defer f.Close()
	if err := gob.NewEncoder(f).Encode(e.St); err != nil {
		t.Fatal(err)
	}
}

func indexOf(scs []*Scenario, s *Scenario) int {
	for i := range scs {
		if scs[i] == s {
			return i
		}
	}
	return -1
}

// ---- replay ---------------------------------------------------------------------------

func TestReplay(t *testing.T) {
	path := os.Getenv("VERIF_REPLAY")
	if path == "" {
		t.Skip("no VERIF_REPLAY")
	}
	b, err := os.ReadFile(path)
	if err != nil {
		t.Fatal(err)
	}
	var rf ReplayFile
	if err := json.Unmarshal(b, &rf); err != nil {
		t.Fatal(err)
	}
	var sc *Scenario
	var pd *PropDef
	// scenario names can exist in both tiers with different options: prefer the one whose
	// level and bound match the recording
	best := -1
	for _, p := range Props {
		for _, tier := range []string{"quick", "thorough"} {
			for _, s := range p.Scenarios(tier) {
				if s.Name != rf.Scenario {
					continue
				}
				score := 0
				if s.Opt.Level == rf.Level {
					score += 2
				}
				if s.Opt.Bound == rf.Bound {
					score++
				}
				if score > best {
					best, sc, pd = score, s, p
				}
			}
		}
	}
	if sc == nil {
		t.Fatalf("scenario %q not found", rf.Scenario)
	}
	if sc.Prop == "" {
		sc.Prop = pd.ID
	}
	x := RunOnce(t, sc, rf.Choices, rf.Options)
	fmt.Printf("scenario: %s\n%s\n", sc.Name, sc.Desc)
	if x.Diverged != "" {
		fmt.Println("DIVERGED:", x.Diverged)
	}
	fmt.Println("--- schedule (thread released per step)")
	for i, n := range x.Trace {
		fmt.Printf("%4d %s\n", i, n)
	}
	fmt.Println("--- frames")
	for _, f := range x.W.Tap.Frames {
		fmt.Printf("[%d] %s by %s deliv@%d\n", f.Step, FrameString(f), f.Sender, f.Deliv)
	}
	fmt.Println("--- observations")
	for _, ev := range x.W.Events {
		fmt.Printf("[%d] %s\n", ev.Step, ev.String())
	}
	e := &Explorer{Globals: append([]func(*Scenario, *World, *Exec) []Violation{GenericOracle}, pd.Globals...)}
	vs := e.judge(sc, x)
	fmt.Println("--- verdict")
	hit := false
	for _, v := range vs {
		if v.Prop == "" {
			v.Prop = sc.Prop
		}
		fmt.Printf("VIOLATION property=%s rule=%s sig=%s\n  %s\n", v.Prop, v.Rule, v.Sig, v.Detail)
		if v.Sig == rf.Sig {
			hit = true
		}
	}
	if hit {
		fmt.Println("REPRODUCED")
	} else {
		fmt.Println("NOT REPRODUCED (the recorded violation does not occur on this tree)")
	}
}

// ---- driver ---------------------------------------------------------------------------

func driverMain() int {
	start := time.Now()
	id, tier := os.Getenv("VERIF_PROP"), os.Getenv("VERIF_TIER")
	if tier == "" {
		tier = "quick"
	}
	p := Props[id]
	if p == nil {
		fmt.Fprintf(os.Stderr, "unknown property %q\n", id)
		return 2
	}
	seed := envInt("VERIF_SEED", 0)
	workers := envInt("VERIF_WORKERS", runtime.NumCPU())
	nsc := len(p.Scenarios(tier))
	if nsc < workers && nsc > 0 && nsc*4 < workers {
		// few small scenarios: subtree sharding still uses all workers
	}
	budget := budgetFor(p, tier)
	deadline := time.Now().Add(budget)
	tmp, err := os.MkdirTemp(filepath.Join(verifDir(), ".build"), "run-"+id+"-")
	if err != nil {
		fmt.Fprintln(os.Stderr, err)
		return 2
	}
	defer os.RemoveAll(tmp)
	type wres struct {
		st  *Stats
		err error
		log string
	}
	res := make([]wres, workers)
	done := make(chan int, workers)
	for k := 0; k < workers; k++ {
		go func(k int) {
			out := filepath.Join(tmp, fmt.Sprintf("w%d.gob", k))
			cmd := exec.Command(os.Args[0], "-test.run", "^TestWorker$", "-test.timeout", "0")
			cmd.Env = append(os.Environ(), "VERIF_MODE=worker", fmt.Sprintf("VERIF_SHARD=%d", k), fmt.Sprintf("VERIF_OF=%d", workers),
				"VERIF_OUT="+out, fmt.Sprintf("VERIF_DEADLINE=%d", deadline.Unix()), "GOMAXPROCS=1",
				"VERIF_ALLOC_LOCK="+filepath.Join(tmp, "alloc.lock"))
			b, err := cmd.CombinedOutput()
			res[k].log = string(b)
			if err != nil {
				res[k].err = err
				done <- k
				return
			}
			f, err := os.Open(out)
			if err != nil {
				res[k].err = err
				done <- k
				return
			}
			defer f.Close()
			st := NewStats()
			res[k].err = gob.NewDecoder(f).Decode(st)
			res[k].st = st
			done <- k
		}(k)
	}
	for i := 0; i < workers; i++ {
		<-done
	}
	tot := NewStats()
	harnessErr := false
	for k, r := range res {
		if r.err != nil {
			fmt.Fprintf(os.Stderr, "worker %d failed: %v\n%s\n", k, r.err, tail(r.log, 60))
			harnessErr = true
			continue
		}
		mergeStats(tot, r.st)
	}
	known, _ := LoadKnown(filepath.Join(verifDir(), "known_findings.json"))
	// C15 only: the free-running race-detector pass (see racepass.go); its reports join the
	// violations of the enumeration, its facts go into the evidence
	var raceCov map[string]any
	if bin := os.Getenv("VERIF_RACE_BIN"); id == "C15" && bin != "" {
		var rv []FoundViolation
		var rerr bool
		raceCov, rv, rerr = runRacePass(bin, tmp, tier)
		harnessErr = harnessErr || rerr
		for _, v := range rv {
			if known != nil {
				if i := known.Match(v.Violation, v.Scenario); i >= 0 {
					tot.Known[fmt.Sprintf("%s %d", v.Prop, i)]++
					continue
				}
			}
			tot.Violations = append(tot.Violations, v)
		}
	}
	// distinct violations across workers
	seen := map[string]bool{}
	var viols []FoundViolation
	for _, v := range tot.Violations {
		k := v.Prop + "|" + v.Sig
		if seen[k] {
			continue
		}
		seen[k] = true
		viols = append(viols, v)
	}
	sort.Slice(viols, func(i, j int) bool { return viols[i].Prop+viols[i].Sig < viols[j].Prop+viols[j].Sig })
	var real []FoundViolation
	inconclusive := 0
	for _, v := range viols {
		if v.Rule == "harness" {
			// the harness could not do its job on this tree (e.g. a field the white-box dump
			// reads is gone): a harness error, never a violation
			fmt.Fprintf(os.Stderr, "HARNESS-ERROR: %s: %s\n", v.Sig, v.Detail)
			harnessErr = true
			continue
		}
		if v.Repro < 5 {
			// did not reproduce identically from its own replay: never reported as a violation
			inconclusive++
			fmt.Printf("INCONCLUSIVE property=%s sig=%s reproduced %d/5 replay=%s\n", v.Prop, v.Sig, v.Repro, v.Replay)
			continue
		}
		real = append(real, v)
	}
	exhaustive := len(tot.Incomplete) == 0 && !harnessErr && tot.StepCaps == 0
	cov := map[string]any{
		"evaluations":                   tot.Executions,
		"distinct_nontrivial":           len(tot.Conf),
		"rule":                          p.Rule,
		"samples":                       tot.Samples,
		"states":                        len(tot.States),
		"transitions":                   tot.Steps,
		"traces_validated_against_impl": tot.Executions,
		"exhaustive":                    exhaustive,
		"scenarios":                     tot.Scenarios,
		"scenarios_completed":           tot.ScenariosDone,
		"outcomes":                      len(tot.Outcomes),
		"executions_by_deviations":      tot.ByBound,
		"replay_checks":                 tot.ReplayChecks,
		"diverged_discarded":            tot.Diverged,
		"step_caps":                     tot.StepCaps,
		"max_alloc_bytes_per_execution": tot.MaxAlloc,
		"abandoned_hung_executions":     tot.Abandoned,
		"inconclusive":                  inconclusive,
		"known_findings_hit":            tot.Known,
		"flags":                         tot.Flags,
		"workers":                       workers,
		"budget_s":                      budget.Seconds(),
		"explanation":                   "every execution is an execution of the real implementation (instrumented build of /repo's working tree) under the controlled scheduler; states = distinct control states (thread program points + carrier queues + observation count) seen at quiescent points; distinct_nontrivial = distinct orders of conflicting accesses (per synchronisation object touched by >= 2 threads) among the executions",
	}
	if raceCov != nil {
		cov["race_pass"] = raceCov
	}
	if len(tot.Incomplete) > 0 {
		n := tot.Incomplete
		if len(n) > 20 {
			n = append(append([]string{}, n[:20]...), fmt.Sprintf("... %d more", len(tot.Incomplete)-20))
		}
		cov["incomplete_scenarios"] = n
	}
	if ins, err := os.ReadFile(filepath.Join(os.Getenv("VERIF_OVERLAY_DIR"), "instrument.json")); err == nil {
		var m map[string]any
		if json.Unmarshal(ins, &m) == nil {
			cov["uninstrumented_sites"] = m["uninstrumented_sites"]
			cov["instrumented_tree_hash"] = m["input_hash"]
		}
	}
	if len(tot.Samples) == 0 {
		cov["samples"] = []string{"(no execution completed)"}
	}
	assumptions := append([]string{
		"go1.26.8 testing/synctest: quiescence detection and virtual clock",
		"overlay instrumentation and sync/atomic shims preserve the semantics of the code under test (pinned suite passes on the instrumented, inert build)",
		"memconn is a faithful model of a grpc-go stream for the operations the library uses",
		"the code under test is data-race free, so that a step (one thread between two scheduling points) is deterministic; replay divergence is reported as a harness error, never as a violation",
	}, p.Assumptions...)
	ev := map[string]any{
		"property_id": id, "tier": tier, "seed": seed, "level": p.Level, "coverage": cov,
		"assumptions": assumptions, "wall_s": time.Since(start).Seconds(), "violations": len(real),
	}
	b, _ := json.MarshalIndent(ev, "", " ")
	_ = os.MkdirAll(filepath.Join(verifDir(), "evidence"), 0o755)
	evPath := filepath.Join(verifDir(), "evidence", id+".json")
	if os.Getenv("VERIF_NO_EVIDENCE") != "" {
		// self tests against deliberately broken scratch trees must not overwrite evidence
		evPath = filepath.Join(tmp, "evidence.json")
	}
	if err := os.WriteFile(evPath, b, 0o644); err != nil {
		fmt.Fprintln(os.Stderr, err)
		return 2
	}
	if !exhaustive {
		fmt.Printf("not exhaustive: incomplete_scenarios=%d step_caps=%d harness_error=%v\n", len(tot.Incomplete), tot.StepCaps, harnessErr)
	}
	fmt.Printf("property=%s tier=%s scenarios=%d/%d executions=%d steps=%d states=%d outcomes=%d conflict-orders=%d max-alloc=%dK exhaustive=%v wall=%.1fs\n",
		id, tier, tot.ScenariosDone, tot.Scenarios, tot.Executions, tot.Steps, len(tot.States), len(tot.Outcomes), len(tot.Conf), tot.MaxAlloc>>10, exhaustive, time.Since(start).Seconds())
	var ks []string
	for k := range tot.Known {
		ks = append(ks, k)
	}
	sort.Strings(ks)
	for _, k := range ks {
		parts := strings.SplitN(k, " ", 2)
		what := parts[1]
		if i, err := strconv.Atoi(parts[1]); err == nil && known != nil && i < len(known.Findings) {
			what = known.Findings[i].What
		}
		fmt.Printf("KNOWN-FINDING: property=%s %s (%d executions)\n", parts[0], what, tot.Known[k])
	}
	for _, v := range real {
		fmt.Printf("VIOLATION property=%s replay=%s\n  scenario=%s rule=%s sig=%s\n  %s\n", v.Prop, v.Replay, v.Scenario, v.Rule, v.Sig, v.Detail)
	}
	if harnessErr || tot.Flags["persistent_divergence"] {
		if len(real) == 0 {
			fmt.Println("HARNESS-ERROR: a worker failed or replay diverged persistently; see stderr")
			return 2
		}
	}
	if len(real) > 0 {
		return 1
	}
	return 0
}

func tail(s string, n int) string {
	l := strings.Split(s, "\n")
	if len(l) > n {
		l = l[len(l)-n:]
	}
	return strings.Join(l, "\n")
}

func mergeStats(a, b *Stats) {
	a.Scenarios += b.Scenarios
	a.ScenariosDone += b.ScenariosDone
	a.Executions += b.Executions
	if b.MaxAlloc > a.MaxAlloc {
		a.MaxAlloc = b.MaxAlloc
	}
	a.Steps += b.Steps
	a.Diverged += b.Diverged
	a.ReplayChecks += b.ReplayChecks
	a.StepCaps += b.StepCaps
	a.Abandoned += b.Abandoned
	a.Incomplete = append(a.Incomplete, b.Incomplete...)
	for k := range b.Outcomes {
		a.Outcomes[k] = true
	}
	for k := range b.States {
		a.States[k] = true
	}
	for k := range b.Conf {
		a.Conf[k] = true
	}
	for _, s := range b.Samples {
		if len(a.Samples) < 4 {
			a.Samples = append(a.Samples, s)
		}
	}
	a.Violations = append(a.Violations, b.Violations...)
	for k, v := range b.Known {
		a.Known[k] += v
	}
	for k, v := range b.ByBound {
		a.ByBound[k] += v
	}
	for k, v := range b.Flags {
		if v {
			a.Flags[k] = true
		}
	}
}
