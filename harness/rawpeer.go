package harness

import (
	"context"
	"fmt"
	"io"
	"math"

	"github.com/jhump/grpctunnel/tunnelpb"
	"github.com/jhump/grpctunnel/verifrt"
	"google.golang.org/grpc/codes"
	"google.golang.org/grpc/metadata"
	"google.golang.org/grpc/status"
	"google.golang.org/protobuf/types/known/emptypb"
)

// ---- frame constructors (both directions) -----------------------------------------------

func fNew(id int64, method string, rev int32, win uint32, script string) *tunnelpb.ClientToServer {
	md := map[string]*tunnelpb.Metadata_Values{}
	if script != "" {
		md[ScriptKey] = &tunnelpb.Metadata_Values{Val: []string{script}}
	}
	return &tunnelpb.ClientToServer{StreamId: id, Frame: &tunnelpb.ClientToServer_NewStream{NewStream: &tunnelpb.NewStream{
		MethodName: method, ProtocolRevision: tunnelpb.ProtocolRevision(rev), InitialWindowSize: win, RequestHeaders: &tunnelpb.Metadata{Md: md}}}}
}

func fReq(id int64, size uint32, data []byte) *tunnelpb.ClientToServer {
	return &tunnelpb.ClientToServer{StreamId: id, Frame: &tunnelpb.ClientToServer_RequestMessage{RequestMessage: &tunnelpb.MessageData{Size: size, Data: data}}}
}
func fMoreReq(id int64, data []byte) *tunnelpb.ClientToServer {
	return &tunnelpb.ClientToServer{StreamId: id, Frame: &tunnelpb.ClientToServer_MoreRequestData{MoreRequestData: data}}
}
func fHalf(id int64) *tunnelpb.ClientToServer {
	return &tunnelpb.ClientToServer{StreamId: id, Frame: &tunnelpb.ClientToServer_HalfClose{HalfClose: &emptypb.Empty{}}}
}
func fCancel(id int64) *tunnelpb.ClientToServer {
	return &tunnelpb.ClientToServer{StreamId: id, Frame: &tunnelpb.ClientToServer_Cancel{Cancel: &emptypb.Empty{}}}
}
func fWinC(id int64, n uint32) *tunnelpb.ClientToServer {
	return &tunnelpb.ClientToServer{StreamId: id, Frame: &tunnelpb.ClientToServer_WindowUpdate{WindowUpdate: n}}
}
func fNilC(id int64) *tunnelpb.ClientToServer { return &tunnelpb.ClientToServer{StreamId: id} }

func fSettings(id int64, win uint32, revs ...int32) *tunnelpb.ServerToClient {
	var rs []tunnelpb.ProtocolRevision
	for _, r := range revs {
		rs = append(rs, tunnelpb.ProtocolRevision(r))
	}
	return &tunnelpb.ServerToClient{StreamId: id, Frame: &tunnelpb.ServerToClient_Settings{Settings: &tunnelpb.Settings{InitialWindowSize: win, SupportedProtocolRevisions: rs}}}
}
func fHdr(id int64, md metadata.MD) *tunnelpb.ServerToClient {
	m := map[string]*tunnelpb.Metadata_Values{}
	for k, v := range md {
		m[k] = &tunnelpb.Metadata_Values{Val: v}
	}
	return &tunnelpb.ServerToClient{StreamId: id, Frame: &tunnelpb.ServerToClient_ResponseHeaders{ResponseHeaders: &tunnelpb.Metadata{Md: m}}}
}
func fResp(id int64, size uint32, data []byte) *tunnelpb.ServerToClient {
	return &tunnelpb.ServerToClient{StreamId: id, Frame: &tunnelpb.ServerToClient_ResponseMessage{ResponseMessage: &tunnelpb.MessageData{Size: size, Data: data}}}
}
func fMoreResp(id int64, data []byte) *tunnelpb.ServerToClient {
	return &tunnelpb.ServerToClient{StreamId: id, Frame: &tunnelpb.ServerToClient_MoreResponseData{MoreResponseData: data}}
}
func fClose(id int64, c codes.Code, msg string) *tunnelpb.ServerToClient {
	return &tunnelpb.ServerToClient{StreamId: id, Frame: &tunnelpb.ServerToClient_CloseStream{CloseStream: &tunnelpb.CloseStream{Status: status.New(c, msg).Proto()}}}
}
func fWinS(id int64, n uint32) *tunnelpb.ServerToClient {
	return &tunnelpb.ServerToClient{StreamId: id, Frame: &tunnelpb.ServerToClient_WindowUpdate{WindowUpdate: n}}
}
func fNilS(id int64) *tunnelpb.ServerToClient { return &tunnelpb.ServerToClient{StreamId: id} }

// msgBytes returns the serialized form of message idx of tag (what a conforming peer
// would put into the data frames).
func msgBytes(tag byte, dir, idx, sz int) []byte {
	b, _ := protoMarshal(MakeMsg(tag, dir, idx, sz))
	return b
}

const maxU32 = math.MaxUint32

// ---- raw client (speaks ClientToServer over OpenTunnel to a real tunnel server) ------------

// RawClient is a scripted network client of a forward tunnel.
type RawClient struct {
	W      *World
	Stream tunnelpb.TunnelService_OpenTunnelClient
	Name   string
	Recvd  []*tunnelpb.ServerToClient
	Final  error
	Done   bool
	reader *verifrt.Thread
	cancel context.CancelFunc
}

// OpenRawClient opens the carrier stream (with or without the negotiate header) and starts
// a reader that collects everything the server sends.
func (w *World) OpenRawClient(n *Net, negotiate bool) (*RawClient, error) {
	ctx, cancel := context.WithCancel(context.Background())
	if negotiate {
		ctx = metadata.AppendToOutgoingContext(ctx, "grpctunnel-negotiate", "on")
	}
	idx := len(n.Streams)
	cs, err := tunnelpb.NewTunnelServiceClient(n).OpenTunnel(ctx)
	if err != nil {
		cancel()
		return nil, err
	}
	rc := &RawClient{W: w, Stream: cs, Name: fmt.Sprintf("%s%d", n.Label, idx), cancel: cancel}
	w.Vals["raw:"+rc.Name+":client"] = true
	rc.reader = w.Go("rawclient-reader:"+rc.Name, false, func() {
		// a single-threaded peer writes its burst before it reads anything
		w.WaitUntil("raw:reader-held", func() bool { return w.Vals["rawclient:hold-reader"] == nil })
		for {
			m, err := cs.Recv()
			if err != nil {
				rc.Final = err
				rc.Done = true
				em, ec := errFields(err)
				w.Log(Event{Actor: "rawclient", Op: "tunnel-ended", Err: em, Code: ec})
				return
			}
			rc.Recvd = append(rc.Recvd, m)
			w.Log(Event{Actor: "rawclient", Op: "got", Detail: s2cKind(m, dataLenS(m)), Idx: int(m.StreamId)})
		}
	})
	return rc, nil
}

func dataLenS(m *tunnelpb.ServerToClient) int {
	switch fr := m.Frame.(type) {
	case *tunnelpb.ServerToClient_ResponseMessage:
		return len(fr.ResponseMessage.GetData())
	case *tunnelpb.ServerToClient_MoreResponseData:
		return len(fr.MoreResponseData)
	}
	return 0
}

func dataLenC(m *tunnelpb.ClientToServer) int {
	switch fr := m.Frame.(type) {
	case *tunnelpb.ClientToServer_RequestMessage:
		return len(fr.RequestMessage.GetData())
	case *tunnelpb.ClientToServer_MoreRequestData:
		return len(fr.MoreRequestData)
	}
	return 0
}

func (rc *RawClient) Send(f *tunnelpb.ClientToServer) error {
	rc.W.Point("raw:send")
	err := rc.Stream.Send(f)
	if err != nil {
		em, ec := errFields(err)
		rc.W.Log(Event{Actor: "rawclient", Op: "send-failed", Err: em, Code: ec})
	}
	return err
}

// Finish half-closes the carrier and waits for the server to end the tunnel.
func (rc *RawClient) Finish() {
	rc.W.Point("raw:closesend")
	_ = rc.Stream.CloseSend()
	rc.W.Join(rc.reader)
	rc.cancel()
}

// CloseOf returns the close frames received for stream id.
func (rc *RawClient) CloseOf(id int64) []*tunnelpb.CloseStream {
	var out []*tunnelpb.CloseStream
	for _, m := range rc.Recvd {
		if c, ok := m.Frame.(*tunnelpb.ServerToClient_CloseStream); ok && m.StreamId == id {
			out = append(out, c.CloseStream)
		}
	}
	return out
}

// ---- raw server (speaks ServerToClient; the real tunnel client connects to it) ------------

// RawServer is a scripted tunnel server: the real client's OpenTunnel call lands in Serve.
type RawServer struct {
	tunnelpb.UnimplementedTunnelServiceServer
	W *World
	// Negotiate: send the negotiate response header.
	Negotiate bool
	// Script runs on the carrier's handler thread once the stream is open.
	Script func(rs *RawServerConn) error
}

// RawServerConn is the live server side of one tunnel.
type RawServerConn struct {
	W      *World
	Stream tunnelpb.TunnelService_OpenTunnelServer
	Got    []*tunnelpb.ClientToServer
}

func (s *RawServer) OpenTunnel(stream tunnelpb.TunnelService_OpenTunnelServer) error {
	if s.Negotiate {
		_ = stream.SendHeader(metadata.Pairs("grpctunnel-negotiate", "on"))
	} else {
		_ = stream.SendHeader(metadata.MD{})
	}
	return s.Script(&RawServerConn{W: s.W, Stream: stream})
}

// Send emits one frame (a peer-speed scheduling point first).
func (c *RawServerConn) Send(f *tunnelpb.ServerToClient) error {
	c.W.Point("raw:send")
	return c.Stream.Send(f)
}

// Recv reads the next client frame.
func (c *RawServerConn) Recv() (*tunnelpb.ClientToServer, error) {
	m, err := c.Stream.Recv()
	if err == nil {
		c.Got = append(c.Got, m)
		c.W.Log(Event{Actor: "rawserver", Op: "got", Detail: c2sKind(m, dataLenC(m)), Idx: int(m.StreamId)})
	}
	return m, err
}

// RecvUntil reads client frames until pred accepts one (or the stream ends).
func (c *RawServerConn) RecvUntil(pred func(*tunnelpb.ClientToServer) bool) (*tunnelpb.ClientToServer, error) {
	for {
		m, err := c.Recv()
		if err != nil {
			return nil, err
		}
		if pred(m) {
			return m, nil
		}
	}
}

// Drain reads until the client hangs up.
func (c *RawServerConn) DrainAll() {
	for {
		if _, err := c.Recv(); err != nil {
			if err != io.EOF {
				em, ec := errFields(err)
				c.W.Log(Event{Actor: "rawserver", Op: "recv-ended", Err: em, Code: ec})
			}
			return
		}
	}
}

// NewRawServerNet registers a raw server on a fresh net.
func (w *World) NewRawServerNet(label string, negotiate bool, script func(rs *RawServerConn) error) *Net {
	n := NewNet(w, label)
	n.Peer = DefaultPeer()
	tunnelpb.RegisterTunnelServiceServer(n, &RawServer{W: w, Negotiate: negotiate, Script: script})
	w.Vals["rawserver-net:"+label] = true
	return n
}
