package harness

import (
	"fmt"
	"sort"
	"strings"
	"sync"
	"time"

	"github.com/jhump/grpctunnel/tunnelpb"
	"github.com/jhump/grpctunnel/verifrt"
	"google.golang.org/protobuf/proto"
)

func sortStrings(s []string) { sort.Strings(s) }

// World is the closed system of one execution: scheduler, carrier nets, wire tap and the
// observation log the oracles read.
type World struct {
	S    *verifrt.Sched
	Nets []*Net
	Tuns []*Tun
	Tap  *Tap

	mu     sync.Mutex
	Events []Event
	Vals   map[string]any // scenario scratch space (dumps, handles)
	Start  time.Time
	step   int

	// scripts by id, for the test service
	Scripts map[string]*HandlerScript

	// invariants evaluated by the root at every quiescent point; a non-empty result is a
	// violation with that text
	Invariants []func() string
	InvFail    []string
	// FrameMutations: frames that changed between Send and delivery (see memconn)
	FrameMutations []string
	// ContractViolations: concurrent calls grpc does not allow on one stream (see memconn)
	ContractViolations []string
}

// Event is one application-level observation.
type Event struct {
	Step   int
	Actor  string // e.g. "caller:r1", "handler:r1", "env"
	Op     string // e.g. "send", "recv", "header", "trailer", "status", "invoke"
	Idx    int
	Err    string // "" = nil error
	Code   string // gRPC code of Err ("OK" if nil)
	Detail string // op specific (decoded message identity, metadata, ...)
	Thread string // thread that made the observation
}

// OK reports whether the observed operation returned a nil error.
func (e Event) OK() bool { return e.Code == "" || e.Code == "OK" }

func (e Event) String() string {
	s := fmt.Sprintf("%s %s#%d", e.Actor, e.Op, e.Idx)
	if !e.OK() {
		s += " err=" + e.Code + "(" + e.Err + ")"
	}
	if e.Detail != "" {
		s += " " + e.Detail
	}
	return s
}

func (w *World) Log(e Event) {
	if th := w.S.Me(); th != nil {
		e.Thread = th.Name
		if e.Actor == "fault" && th.Low == 2 {
			// a fault actor is last-resort only until it strikes; the action itself (Close,
			// Stop, ...) then runs like any other thread
			th.Low = 0
		}
	}
	w.mu.Lock()
	e.Step = w.step
	w.Events = append(w.Events, e)
	w.mu.Unlock()
}

// EventsOf returns the events of one actor.
func (w *World) EventsOf(actor string) []Event {
	var out []Event
	for _, e := range w.Events {
		if e.Actor == actor {
			out = append(out, e)
		}
	}
	return out
}

// Outcome is the canonical observation vector of an execution (used to count distinct
// outcomes and for differential oracles). Steps are excluded.
func (w *World) Outcome() string {
	by := map[string][]string{}
	var actors []string
	for _, e := range w.Events {
		if _, ok := by[e.Actor]; !ok {
			actors = append(actors, e.Actor)
		}
		by[e.Actor] = append(by[e.Actor], e.String())
	}
	sort.Strings(actors)
	var sb strings.Builder
	for _, a := range actors {
		sb.WriteString(strings.Join(by[a], "; "))
		sb.WriteString(" || ")
	}
	return sb.String()
}

// Go starts a harness actor.
func (w *World) Go(name string, app bool, f func()) *verifrt.Thread {
	return verifrt.GoOpt(name, verifrt.ThreadOpt{App: app, Abs: true}, f)
}

// GoLow starts a low-priority actor (fault / environment event): the default scheduler
// runs it only when nothing else can run, so firing it earlier is a deviation.
func (w *World) GoLow(name string, f func()) *verifrt.Thread {
	return verifrt.GoOpt(name, verifrt.ThreadOpt{Abs: true, Low: 2, Daemon: true}, f)
}

// GoPeer starts a scripted raw peer: an application actor that by default acts only when
// the system under test is quiescent (sending earlier is a deviation).
func (w *World) GoPeer(name string, f func()) *verifrt.Thread {
	return verifrt.GoOpt(name, verifrt.ThreadOpt{Abs: true, Low: 1, App: true}, f)
}

// Point is an application-level scheduling point.
func (w *World) Point(site string) { verifrt.Yield("app", site, nil, nil) }

// WaitUntil parks the calling actor until pred holds (pred is evaluated at quiescent
// points only).
func (w *World) WaitUntil(site string, pred func() bool) {
	verifrt.Yield("wait", site, nil, pred)
}

// Join waits for threads to finish.
func (w *World) Join(ts ...*verifrt.Thread) {
	w.WaitUntil("join", func() bool {
		for _, t := range ts {
			if t != nil && !t.Done {
				return false
			}
		}
		return true
	})
}

// Sleep is a virtual sleep: the actor resumes once the explorer has advanced the clock.
func (w *World) Sleep(d time.Duration) {
	until := time.Now().Add(d)
	verifrt.Yield("sleep", "sleep", nil, func() bool { return !time.Now().Before(until) })
}

// ---- wire tap -------------------------------------------------------------------

// Frame is one tunnel frame seen on a carrier stream.
type Frame struct {
	Seq     int
	Step    int
	Stream  string // carrier stream name
	C2S     bool   // carrier direction client->server
	Msg     proto.Message
	Size    int
	Sender  string // thread that sent it
	Queued  bool   // false: dropped by the carrier because the other side was gone
	Note    string // non-frame events ("break", "c.closesend", ...)
	Deliv   int    // step at which it was delivered to the receiving endpoint (-1: not)
	DataLen int    // message bytes carried by a data frame (the tap keeps sizes, not payloads)
}

// Tap records every frame of every carrier stream.
type Tap struct {
	w      *World
	mu     sync.Mutex
	Frames []*Frame
	next   map[string]int // per stream+dir index of the next undelivered frame
}

func (t *Tap) open(ms *MStream) {}

func (t *Tap) note(ms *MStream, what string) {
	t.mu.Lock()
	t.Frames = append(t.Frames, &Frame{Seq: len(t.Frames), Step: t.w.step, Stream: ms.Name, Note: what, Deliv: -1})
	t.mu.Unlock()
}

func (t *Tap) frame(ms *MStream, c2s bool, m proto.Message, b []byte, queued bool) {
	name := ""
	if th := t.w.S.Me(); th != nil {
		name = th.Name
	}
	t.mu.Lock()
	lite, n := stripData(m)
	t.Frames = append(t.Frames, &Frame{Seq: len(t.Frames), Step: t.w.step, Stream: ms.Name, C2S: c2s, Msg: lite,
		Size: len(b), Sender: name, Queued: queued, Deliv: -1, DataLen: n})
	t.mu.Unlock()
}

func (t *Tap) delivered(ms *MStream, c2s bool) {
	t.mu.Lock()
	defer t.mu.Unlock()
	key := fmt.Sprintf("%s/%v", ms.Name, c2s)
	i := t.next[key]
	for ; i < len(t.Frames); i++ {
		f := t.Frames[i]
		if f.Note == "" && f.Stream == ms.Name && f.C2S == c2s && f.Queued && f.Deliv < 0 {
			f.Deliv = t.w.step
			t.next[key] = i + 1
			return
		}
	}
}

// stripData copies a frame without its payload bytes (kept: ids, kinds, sizes, metadata).
func stripData(m proto.Message) (proto.Message, int) {
	switch x := m.(type) {
	case *tunnelpb.ClientToServer:
		switch fr := x.Frame.(type) {
		case *tunnelpb.ClientToServer_RequestMessage:
			return &tunnelpb.ClientToServer{StreamId: x.StreamId, Frame: &tunnelpb.ClientToServer_RequestMessage{RequestMessage: &tunnelpb.MessageData{Size: fr.RequestMessage.GetSize()}}}, len(fr.RequestMessage.GetData())
		case *tunnelpb.ClientToServer_MoreRequestData:
			return &tunnelpb.ClientToServer{StreamId: x.StreamId, Frame: &tunnelpb.ClientToServer_MoreRequestData{}}, len(fr.MoreRequestData)
		}
	case *tunnelpb.ServerToClient:
		switch fr := x.Frame.(type) {
		case *tunnelpb.ServerToClient_ResponseMessage:
			return &tunnelpb.ServerToClient{StreamId: x.StreamId, Frame: &tunnelpb.ServerToClient_ResponseMessage{ResponseMessage: &tunnelpb.MessageData{Size: fr.ResponseMessage.GetSize()}}}, len(fr.ResponseMessage.GetData())
		case *tunnelpb.ServerToClient_MoreResponseData:
			return &tunnelpb.ServerToClient{StreamId: x.StreamId, Frame: &tunnelpb.ServerToClient_MoreResponseData{}}, len(fr.MoreResponseData)
		}
	}
	return proto.Clone(m), 0
}

// TunnelFrames returns the frames (not notes) of one carrier stream in send order.
func (t *Tap) TunnelFrames(stream string) []*Frame {
	var out []*Frame
	for _, f := range t.Frames {
		if f.Note == "" && f.Stream == stream {
			out = append(out, f)
		}
	}
	return out
}

// FrameString renders a frame compactly.
func FrameString(f *Frame) string {
	if f.Note != "" {
		return fmt.Sprintf("%s !%s", f.Stream, f.Note)
	}
	q := ""
	if !f.Queued {
		q = " (dropped)"
	}
	switch m := f.Msg.(type) {
	case *tunnelpb.ClientToServer:
		return fmt.Sprintf("%s C>S id=%d %s%s", f.Stream, m.StreamId, c2sKind(m, f.DataLen), q)
	case *tunnelpb.ServerToClient:
		return fmt.Sprintf("%s S>C id=%d %s%s", f.Stream, m.StreamId, s2cKind(m, f.DataLen), q)
	}
	return fmt.Sprintf("%s ? %T", f.Stream, f.Msg)
}

func c2sKind(m *tunnelpb.ClientToServer, n int) string {
	switch fr := m.Frame.(type) {
	case *tunnelpb.ClientToServer_NewStream:
		return fmt.Sprintf("new(%s rev=%d win=%d)", fr.NewStream.MethodName, fr.NewStream.ProtocolRevision, fr.NewStream.InitialWindowSize)
	case *tunnelpb.ClientToServer_RequestMessage:
		return fmt.Sprintf("msg(size=%d data=%d)", fr.RequestMessage.Size, n)
	case *tunnelpb.ClientToServer_MoreRequestData:
		return fmt.Sprintf("more(%d)", n)
	case *tunnelpb.ClientToServer_HalfClose:
		return "halfclose"
	case *tunnelpb.ClientToServer_Cancel:
		return "cancel"
	case *tunnelpb.ClientToServer_WindowUpdate:
		return fmt.Sprintf("win(+%d)", fr.WindowUpdate)
	case nil:
		return "nil"
	}
	return fmt.Sprintf("%T", m.Frame)
}

func s2cKind(m *tunnelpb.ServerToClient, n int) string {
	switch fr := m.Frame.(type) {
	case *tunnelpb.ServerToClient_Settings:
		return fmt.Sprintf("settings(revs=%v win=%d)", fr.Settings.SupportedProtocolRevisions, fr.Settings.InitialWindowSize)
	case *tunnelpb.ServerToClient_ResponseHeaders:
		return "headers"
	case *tunnelpb.ServerToClient_ResponseMessage:
		return fmt.Sprintf("msg(size=%d data=%d)", fr.ResponseMessage.Size, n)
	case *tunnelpb.ServerToClient_MoreResponseData:
		return fmt.Sprintf("more(%d)", n)
	case *tunnelpb.ServerToClient_CloseStream:
		return fmt.Sprintf("close(%d)", fr.CloseStream.GetStatus().GetCode())
	case *tunnelpb.ServerToClient_WindowUpdate:
		return fmt.Sprintf("win(+%d)", fr.WindowUpdate)
	case nil:
		return "nil"
	}
	return fmt.Sprintf("%T", m.Frame)
}

// sutTransient reports whether a thread belongs to the code under test and is not a
// tunnel receive loop (i.e. it serves one RPC or one frame and must end by itself).
func sutTransient(name string) bool {
	if !strings.Contains(name, ".go:") {
		return false
	}
	last := name[strings.LastIndexByte(name, '/')+1:]
	return !strings.Contains(last, ":newTunnelChannel#")
}

// waitingForFrame: the thread is parked in a carrier receive with nothing to receive - i.e. it
// is a tunnel receive loop between two frames (recognised by what it does, not by the name of
// the function that started it).
func waitingForFrame(th *verifrt.Thread) bool {
	return th.Parked && th.Kind == "carrier" && strings.Contains(th.Site, ".recv:") && th.Guard != nil && !th.Guard()
}

// Drain waits until every per-RPC thread of the code under test has finished: every thread
// started by the library is either done or a receive loop waiting for its next frame.
func (w *World) Drain() {
	w.WaitUntil("drain", func() bool {
		for _, th := range w.S.Threads {
			if !th.Done && strings.Contains(th.Name, ".go:") && !waitingForFrame(th) {
				return false
			}
		}
		return true
	})
}

// RecvLoopsIdle reports whether every tunnel-client receive loop is finished or waiting for
// the next frame (it must only be called from guards, i.e. at quiescent points).
func (w *World) RecvLoopsIdle() bool {
	for _, th := range w.S.Threads {
		if th.Done || !(strings.Contains(th.Name, ".go:") || strings.HasSuffix(th.Name, ":handler") || strings.HasPrefix(th.Name, "serve:")) {
			continue
		}
		// no thread of the library may be able to run: each is waiting (for a frame, for the
		// application, for a lock holder ...)
		if !th.Parked || th.Guard == nil || th.Guard() {
			return false
		}
	}
	return true
}
